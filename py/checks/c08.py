"""C08 - a file cut off at any byte reads as an unmodified prefix of its objects (every truncation offset enumerated)."""
import subprocess
import common


def run(tier, replay=None):
    res = common.Result('C08', tier, 'fault_enumeration')
    nbase = 24 if tier == 'quick' else 96
    exe = common.hbuild('h_file', ['h_file.cpp'], 'asan', need_reflect=True)
    env = common.san_env(dict(VERIF_TMP=common.scratch_dir()))
    total = int(subprocess.check_output([exe, 'c08count', common.seed(), nbase] and [exe, 'c08count', str(common.seed()), str(nbase)],
                                        env=env, timeout=300).split()[0])
    sh = common.Sharded(exe, lambda a, b: ['c08', common.seed(), a, b, nbase], total, env=env, tag='c08', timeout=1500).run()
    common.absorb(res, sh)
    st = common.merge_stats(sh.stats)
    res.evaluations = st.get('sessions', 0)
    res.distinct = st.get('sessions_with_objects', 0)
    res.exhaustive = True
    res.rule = ('%d base files written by the library (levels {0,1,6,9} x container {16,100,1000} x trailer x final/initial header, 12-30 '
                'objects of mixed classes incl. empty payloads, objects spanning containers); EVERY prefix length 0..size is opened and read; '
                'expected = objects whose bytes lie wholly inside completely stored containers (independent container walk), compared '
                'member by member with the originals, then null, close returns, only the library\'s exception may escape open(); '
                'distinct_nontrivial = truncation points that still deliver at least one object' % nbase)
    res.samples = st.get('samples', [])[:6]
    res.extra = dict(base_files=nbase, truncation_points=total, open_threw=st.get('open_threw', 0), objects_delivered=st.get('objects_delivered', 0),
                     distinct_outcomes=st.get('distinct_outcomes', 0))
    if st.get('sessions', 0) < total and not (sh.crashes or sh.hangs or sh.viols):
        res.inconclusive.append('only %d of %d truncation points ran' % (st.get('sessions', 0), total))
    return res.finish()
