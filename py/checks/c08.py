"""C08 - a file cut off at any byte reads as an unmodified prefix of its objects (every truncation offset enumerated)."""
import subprocess
import common


def run(tier, replay=None):
    res = common.Result('C08', tier, 'fault_enumeration')
    nbase = 24 if tier == 'quick' else 96
    exe = common.hbuild('h_file', ['h_file.cpp'], 'asan', need_reflect=True)
    env = common.san_env(dict(VERIF_TMP=common.scratch_dir()))
    total = int(subprocess.check_output([exe, 'c08count', common.seed(), nbase] and [exe, 'c08count', str(common.seed()), str(nbase)],
                                        env=env, timeout=300).split()[0])
    sh = common.Sharded(exe, lambda a, b: ['c08', common.seed(), a, b, nbase], total, env=env, tag='c08', timeout=1500)
    sh.keep_prefix = '@cnt '
    sh.run()
    common.absorb(res, sh)
    # "a longer prefix of the same file never yields fewer objects"
    per = {}
    for line in sh.kept:
        _, b, L, n = line.split()
        per.setdefault(int(b), []).append((int(L), int(n)))
    nonmono = 0
    for b, lst in per.items():
        lst.sort()
        best = 0
        for L, n in lst:
            if n < best:
                nonmono += 1
                res.violation('longer-prefix-yields-fewer-objects', 'base %d: cut %d delivers %d objects, a shorter cut delivered %d' % (b, L, n, best), dict(case=None))
            best = max(best, n)
    st = common.merge_stats(sh.stats)
    res.evaluations = st.get('sessions', 0)
    res.distinct = st.get('sessions_with_objects', 0)
    res.exhaustive = True
    res.rule = ('%d base files written by the library (levels {0,1,6,9} x container {16,100,1000} x trailer x final/initial header, 12-30 '
                'objects of mixed classes incl. empty payloads, objects spanning containers); EVERY prefix length 0..size is opened and read (every third with a '
                'queue of 1..3 objects and a 64..512-byte buffer, so that workers are blocked when the input ends early); '
                'expected = objects whose bytes lie wholly inside completely stored containers (independent container walk; an object cut only inside a '
                'tail the decoder skips rather than reads - union slack - may be delivered or not), the count never decreases with the prefix length, compared '
                'member by member with the originals, then null, close returns, only the library\'s exception may escape open(); '
                'distinct_nontrivial = truncation points that still deliver at least one object' % nbase)
    res.samples = st.get('samples', [])[:6]
    res.extra = dict(base_files=nbase, truncation_points=total, open_threw=st.get('open_threw', 0), objects_delivered=st.get('objects_delivered', 0),
                     distinct_outcomes=st.get('distinct_outcomes', 0), monotonicity_pairs_checked=sum(len(v) for v in per.values()),
                     delivered_although_cut_in_skipped_tail=st.get('delivered_although_cut_in_skipped_tail', 0),
                     sessions_with_tiny_limits=st.get('sessions_with_tiny_limits', 0))
    if st.get('sessions', 0) < total and not (sh.crashes or sh.hangs or sh.viols):
        res.inconclusive.append('only %d of %d truncation points ran' % (st.get('sessions', 0), total))
    return res.finish()
