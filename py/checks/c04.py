"""C04 - finished files decode with an independent implementation of the container format."""
import common
from checks import gen_common


def run(tier, replay=None):
    res = common.Result('C04', tier, 'exploration')
    total = 3200 if tier == 'quick' else 32000
    shapes = set()
    cfgs = set()

    def judge(meta, data, E, pbs):
        gen_common.strict_and_payload(meta, data, E, res, pbs)
        shapes.add((meta['level'], meta['C'], meta['trailer'], min(meta['nobj'], 3), len(E) > meta['C']))
        cfgs.add((meta['level'], meta['C'], meta['trailer']))
        if len(res.samples) < 6 and meta['nobj'] > 2:
            res.samples.append('level=%d C=%d trailer=%d file=%d bytes payload=%d bytes %s' % (meta['level'], meta['C'], meta['trailer'], len(data), len(E), meta['shape']))

    gen_common.run_gen(res, tier, total, judge)
    res.distinct = shapes
    res.rule = ('object sequences as in C01 (incl. the empty sequence), each written under %d configurations (levels 0..9 x container sizes '
                '1..4 MiB x trailer on/off x limits); the file on disk is judged by the independent stdlib decoder: header, only well-formed '
                'type-10 objects, method/zlib level class vs configured level, exact inflate size, container size bound and fill, padding, '
                'nothing after the last container, trailer position; payload == concatenation of independently obtained encodings, identical '
                'across configurations, walkable by header fields alone; distinct = (level, C, trailer, #objects class, spans-containers)' % gen_common.K)
    res.extra = dict(configurations_seen=len(cfgs))
    res.assumptions = ['decoder validated on every run against the 170 Vector-produced reference logs',
                       'zlib level class is read from the FLEVEL bits of the zlib header']
    if res.evaluations < total and not res.violations:
        res.inconclusive.append('only %d of %d files judged' % (res.evaluations, total))
    return res.finish()
