"""C01 - write-then-read returns the same objects, in order, for every configuration (field-by-field by reflection)."""
import common


def run(tier, replay=None):
    res = common.Result('C01', tier, 'exploration')
    total = 10000 if tier == 'quick' else 120000
    exe = common.hbuild('h_file', ['h_file.cpp'], 'asan', need_reflect=True)
    env = common.san_env(dict(VERIF_TMP=common.scratch_dir()))
    # sessions of more than 4 GiB (plain build, compressible payloads) run beside the sharded sessions: one in the quick tier, four configurations in thorough
    big = common.hbuild('h_big', ['h_big.cpp'], 'plain')
    nbig = 1 if tier == 'quick' else 4
    bigsh = common.Sharded(big, lambda a, b: ['big', common.seed(), a, b], nbig, env=env, chunk=1, tag='c01big', timeout=2400, case_timeout=1000)
    import threading
    bt = threading.Thread(target=bigsh.run)
    bt.start()
    sh = common.Sharded(exe, lambda a, b: ['c01', common.seed(), a, b], total, env=env, tag='c01', timeout=1500, case_timeout=200).run()
    bt.join()
    common.absorb(res, sh)
    common.absorb(res, bigsh)
    st = common.merge_stats(sh.stats + bigsh.stats)
    res.evaluations = st.get('sessions', 0)
    res.distinct = set(st.get('shapes', []))
    res.rule = ('sessions: 0..40 objects drawn from all reflected classes (scalars random with boundary bias, payload lengths 0..N incl. '
                '255/65535/64 KiB..300 KiB, every variant selector, default-constructed objects), written through File with level 0..9 x '
                'container size {1,2,3,7,16,100,4 KiB,0x1ffff,0x20000,0x20001,1 MiB,4 MiB} x trailer on/off x default or tiny limits, read '
                'back and compared member by member with the caller\'s clone (library-derived length fields vs container sizes), then '
                'null/eof/!good; distinct = (class, payload residues, variant) shapes of the objects compared; plus sessions pushing more than '
                '2^32 bytes of AppText objects through the pipeline (every payload byte, order, counters, header sizes vs the container chain)')
    res.samples = st.get('samples', [])[:6]
    res.extra = dict(objects_compared=st.get('objects', 0), classes_seen=len(set(s.split(':')[0] for s in st.get('shapes', []))),
                     levels=sorted(set(st.get('levels', []))), container_sizes=sorted(set(st.get('container_sizes', []))),
                     sessions_beyond_4GiB=st.get('big_sessions', 0), objects_in_them=st.get('big_objects', 0), bytes_through_pipeline_in_them=st.get('big_bytes_through_pipeline', 0),
                     max_stream_position=st.get('max_stream_position', 0), big_samples=st.get('big_samples', []))
    res.assumptions = ['payload volume per session is scaled with the container size (<= 2000 containers) because the stream stages scan '
                       'their container list per chunk; fields are sampled, not enumerated']
    if st.get('sessions', 0) < total and not (sh.crashes or sh.hangs or sh.viols):
        res.inconclusive.append('only %d of %d sessions ran' % (st.get('sessions', 0), total))
    if res.extra['sessions_beyond_4GiB'] < nbig and not (bigsh.viols or bigsh.crashes or bigsh.hangs):
        res.inconclusive.append('4 GiB sessions: %d of %d reported' % (res.extra['sessions_beyond_4GiB'], nbig))
    if res.extra['classes_seen'] < 118 and tier == 'thorough':
        res.inconclusive.append('coverage gate: only %d classes seen' % res.extra['classes_seen'])
    if len(res.extra['levels']) < 10 or len(res.extra['container_sizes']) < 12:
        res.inconclusive.append('coverage gate: not every level / container size exercised')
    return res.finish()
