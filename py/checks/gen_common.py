"""Shared driver for C04/C05 (and C14): the harness writes files + sidecars in batches; the independent Python decoder judges them."""
import json
import os
import struct
import common
import blf

K = 4   # configurations per object sequence


def run_gen(res, tier, total, judge):
    exe = common.hbuild('h_file', ['h_file.cpp'], 'asan', need_reflect=True)
    refs = [blf.load_reference(f) for f in blf.reference_logs()]
    if len(refs) < 100 or any(r['errs'] or r['end'] != r['size'] for r in refs):
        raise common.Inconclusive('independent decoder does not accept the reference logs')
    base = common.scratch_dir()
    done = 0
    batch = 1600
    allstats = []
    payload_by_seq = {}
    while done < total:
        n = min(batch, total - done)
        d = os.path.join(base, 'gen%d' % done)
        os.makedirs(d, exist_ok=True)
        env = common.san_env(dict(VERIF_TMP=d))
        off = done
        sh = common.Sharded(exe, lambda a, b: ['gen', common.seed(), a + off, b + off, d, K], n, env=env, tag='gen', timeout=1500).run()
        common.absorb(res, sh)
        allstats += sh.stats
        for idx in range(off, off + n):
            p = os.path.join(d, '%d' % idx)
            if not os.path.exists(p + '.json'):
                continue
            meta = json.load(open(p + '.json'))
            data = open(p + '.blf', 'rb').read()
            E = open(p + '.E', 'rb').read()
            judge(meta, data, E, payload_by_seq)
            res.evaluations += 1
            for ext in ('.json', '.blf', '.E'):
                os.unlink(p + ext)
        if len(payload_by_seq) > 5000:
            payload_by_seq.clear()
        done += n
    return common.merge_stats(allstats)


def strict_and_payload(meta, data, E, res, payload_by_seq):
    """C04 oracle; returns (errs, stream, header, conts)"""
    errs, stream, h, conts = blf.strict_file(data, meta['level'], meta['C'], bool(meta['trailer']))
    cfg = 'level=%d C=%d trailer=%d idx=%d %s' % (meta['level'], meta['C'], meta['trailer'], meta['idx'], meta['shape'])
    for e in errs:
        import re
        key = re.sub(r'\d+', 'N', e)
        res.violation('container:' + key, e + ' ' + cfg, dict(case=meta['idx']))
    if stream != E:
        n = 0
        while n < len(stream) and n < len(E) and stream[n] == E[n]:
            n += 1
        res.violation('payload!=concatenated-encodings', 'first difference at %d (payload %d bytes, encodings %d) %s' % (n, len(stream), len(E), cfg),
                      dict(case=meta['idx']))
    # walk by header fields alone, as other BLF tools do
    w = blf.walk(stream)
    objs = [o for o in w if o[0] == 'OBJ']
    fills = [o for o in w if o[0] == 'FILL' and o[2].strip(b'\0')]
    if len(objs) != meta['nobj'] or fills or any(o[0] == 'TRUNC' for o in w):
        res.violation('stream-not-walkable-by-header-fields', '%d objects found, %d written, %d non-zero fillers %s' % (len(objs), meta['nobj'], len(fills), cfg),
                      dict(case=meta['idx']))
    prev = payload_by_seq.get(meta['seq'])
    if prev is not None and prev != stream:
        res.violation('payload-differs-between-configurations', cfg, dict(case=meta['idx']))
    payload_by_seq[meta['seq']] = stream
    return errs, stream, h, conts
