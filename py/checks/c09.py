"""C09 - unknown object types and filler bytes are skipped without losing neighbours.
Inputs are assembled by the independent encoder (py/blf.py), never by the library's writer."""
import itertools
import os
import random
import struct
import zlib
import common
import blf

UNKNOWN_TYPES = [0, 26, 27, 28, 52, 53, 108, 116, 117, 132, 255, 256, 0x10001, 0x20041, 0x80000001, 0x7fffffff, 0xffffffff]    # incl. codes whose low 16 / low 8 bits are assigned codes
UNKNOWN_SIZES = [16, 17, 18, 19, 20, 31, 32, 33, 100, 4095, 4096]


_LIN_V1 = None


def lin_v1(uid):
    """LIN_MESSAGE2 in its version-1 layout (164 bytes): a reference image cut to the fields of API version 1, unique id in the time stamp.
    Its declared size is below the largest layout of its class, which sends the reader through its reposition-after-short-object path."""
    global _LIN_V1
    if _LIN_V1 is None:
        for f in blf.reference_logs():
            if f.endswith('events_from_binlog/test_LinMessage2.blf'):
                for ty, img, osz in blf.object_images(blf.load_reference(f)['stream']):
                    if ty == 57 and osz == 184:
                        _LIN_V1 = bytearray(img[:164])
                        struct.pack_into('<I', _LIN_V1, 8, 164)
                        break
        if _LIN_V1 is None:
            raise common.Inconclusive('no LIN_MESSAGE2 reference image found')
    b = bytearray(_LIN_V1)
    struct.pack_into('<Q', b, 24, uid)
    return bytes(b)


def known(uid, rnd):
    """a known object carrying a unique id; CanMessage, AppText (payload residues 0..3) and, every 5th, a short-layout LinMessage2"""
    if uid % 5 == 0:
        return 57, lin_v1(uid)
    if uid % 2:
        img = blf.can_message(uid)
        return 1, img
    t = bytes(rnd.randrange(32, 127) for _ in range(uid % 7))
    return 65, blf.app_text(uid, t)


def build_cases(tier, seed):
    rnd = random.Random(seed * 7919 + 9)
    cases = []          # (description, stream bytes, expected [(type, uid, crc)], container size)
    alpha = [b'L', b'O', b'B', b'J', b'x']
    maxlen = 6 if tier == 'quick' else 8
    fillers = [b''.join(t) for n in range(0, maxlen + 1) for t in itertools.product(alpha, repeat=n)]
    fillers = [f for f in fillers if b'LOBJ' not in f]
    nexh = len(fillers)
    # the 5th symbol stands for "any other byte": rotate the concrete value
    others = [b'x', b'\x00', b'\xff', b'\x4b', b'l']
    nrand = 20000 if tier == 'quick' else 200000
    for _ in range(nrand):
        n = rnd.randrange(10, 201)
        if rnd.random() < 0.5:
            f = bytes(rnd.choice(b'LOBJx') for _ in range(n))
        else:
            f = bytes(rnd.randrange(256) for _ in range(n))
        while b'LOBJ' in f:
            f = f.replace(b'LOBJ', b'LOBx')
        fillers.append(f)
    uid = 1
    batch = 64
    sweep = list(range(1, 41)) + [48, 64, 100, 1000]
    bi = 0
    for i in range(0, len(fillers), batch):
        fs = fillers[i:i + batch]
        other = others[bi % len(others)]
        stream = b''
        exp = []
        for f in fs:
            ty, img = known(uid, rnd)
            stream += img + f.replace(b'x', other)
            exp.append((ty, uid, zlib.crc32(img)))
            uid += 1
        ty, img = known(uid, rnd)
        stream += img
        exp.append((ty, uid, zlib.crc32(img)))
        uid += 1
        cs = len(stream) if bi % 5 == 0 else sweep[bi % len(sweep)]
        cases.append(('fillers[%d..%d] other=%r cs=%d' % (i, i + len(fs), other, cs), stream, exp, cs, 'filler'))
        bi += 1
    # the stream ENDS with filler after the last known object (partial signatures, lone bytes): everything before must arrive and the read must end
    ntail = 0
    for tail in [b'L', b'LO', b'LOB', b'\0\0\0L', b'\0\0LO', b'\0LOB', b'xL', b'xxLO', b'xxxLOB', b'LLLL', b'LOLO', b'LOBLOB', b'\0', b'\0\0\0', b'x' * 5, b'LOBJ'[:3] * 3]:
        for cs in (0, 7, 16):
            stream = b''
            exp = []
            for k in range(3):
                t, img = known(uid, rnd)
                stream += img
                exp.append((t, uid, zlib.crc32(img)))
                uid += 1
            stream += tail
            cases.append(('trailing filler %r cs=%d' % (tail, cs or len(stream)), stream, exp, cs or len(stream), 'tail'))
            ntail += 1
    # unknown objects: every type x size, bodies arbitrary / containing a complete fake object, with and without pad zeros after
    nunk = 0
    for ty in UNKNOWN_TYPES:
        for size in UNKNOWN_SIZES:
            for variant in range(6):
                body = bytes(rnd.randrange(256) for _ in range(max(size, 16) - 16))
                while b'LOBJ' in body:
                    body = body.replace(b'LOBJ', b'LOBx')
                sub = 'plain'
                if variant in (1, 4, 5) and size >= 16 + 48:
                    fake = blf.can_message(999999)
                    at = 0 if variant == 1 else min(len(body) - len(fake), rnd.choice([0, 20, 40]))
                    body = body[:at] + fake + body[at + len(fake):]
                    sub = 'fake-object-inside'
                elif variant in (1, 4, 5):
                    continue
                padded = variant == 2 and size % 4
                if variant == 2 and not size % 4:
                    continue
                stream = b''
                exp = []
                for k in range(3):
                    t, img = known(uid, rnd)
                    stream += img
                    exp.append((t, uid, zlib.crc32(img)))
                    uid += 1
                    if k < 2:
                        # an unknown object is skipped by its objectSize alone: whatever its headerSize / headerVersion fields say
                        hs = [16, 32, 40, 0, 0xffff][nunk % 5]
                        stream += blf.unknown_object(ty, size, body, hs=hs, hv=[1, 0, 2][nunk % 3]) + (b'\0' * (size % 4) if padded else b'')
                if variant in (3, 4, 5):
                    cs = rnd.choice([7, 16, 33]) if variant != 5 else 48 + 16 + rnd.choice([8, 24, 32])   # skip target lies in containers that are not decoded yet
                    sub += '+small-containers' if variant != 3 else ''
                    if variant == 3:
                        sub = 'small-containers'
                else:
                    cs = rnd.choice([len(stream), 64, 100, 1000, 5000])
                cases.append(('unknown type=%d size=%d %s%s hs=%d cs=%d' % (ty, size, sub, ' padded' if padded else '', [16, 32, 40, 0, 0xffff][nunk % 5], cs), stream, exp, cs, 'unknown'))
                nunk += 1
    # very long runs of consecutive unknown objects between known neighbours (a reader that keeps per-object state on its stack, or
    # recurses per skipped object, runs out of it)
    for nrun, sizes in ((200000, (16,)), (120000, (16, 17, 20, 33, 64))):
        stream = b''
        exp = []
        for k in range(3):
            t, img = known(uid, rnd)
            stream += img
            exp.append((t, uid, zlib.crc32(img)))
            uid += 1
            if k == 0:
                parts = []
                for j in range(nrun):
                    sz = sizes[j % len(sizes)]
                    parts.append(blf.unknown_object(UNKNOWN_TYPES[j % len(UNKNOWN_TYPES)], sz, b'\xee' * (sz - 16)) + b'\0' * (sz % 4))
                stream += b''.join(parts)
        cases.append(('run of %d consecutive unknown objects (sizes %s) cs=65536' % (nrun, list(sizes)), stream, exp, 65536, 'unknown'))
        nunk += 1
    return cases, nexh, len(fillers) - nexh, nunk + ntail


def run(tier, replay=None):
    res = common.Result('C09', tier, 'exploration')
    cases, nexh, nrand, nunk = build_cases(tier, common.seed())
    exe = common.hbuild('h_file', ['h_file.cpp'], 'asan', need_reflect=True)
    d = common.scratch_dir()
    paths = []
    for i, (desc, stream, exp, cs, kind) in enumerate(cases):
        p = os.path.join(d, 'c09_%d.blf' % i)
        method = 2 if i % 3 == 0 else 0
        with open(p, 'wb') as f:
            f.write(blf.wrap(stream, cs, method, 6))
        paths.append(p)
    lst = os.path.join(d, 'c09.list')
    open(lst, 'w').write('\n'.join(paths) + '\n')
    sh = common.Sharded(exe, lambda a, b: ['ids', common.seed(), a, b, lst], len(paths), env=common.san_env(dict(VERIF_TMP=d)), tag='c09',
                        timeout=1500)
    sh.keep_prefix = '@ids '
    sh.run()
    common.absorb(res, sh)
    # second pass over the unknown-object files with a 64-byte buffer and queue capacity 10: the parser then reaches a skip
    # target before the inflater has delivered it on every run, not only when the timing happens to allow it
    first_unknown = next(i for i, c in enumerate(cases) if c[4] == 'unknown')
    sh2 = common.Sharded(exe, lambda a, b: ['ids', common.seed(), a + first_unknown, b + first_unknown, lst], len(paths) - first_unknown,
                         env=common.san_env(dict(VERIF_TMP=d, VERIF_IDS_LIMITS='10,64')), tag='c09b', timeout=1500)
    sh2.keep_prefix = '@ids '
    sh2.run()
    common.absorb(res, sh2)
    sh.kept += sh2.kept
    seen = 0
    kinds = {}
    for line in sh.kept:
        parts = line.split()
        i = int(parts[1])
        desc, stream, exp, cs, kind = cases[i]
        got = parts[2:]
        want = ['%d:%d:%d' % e for e in exp]
        seen += 1
        kinds[kind] = kinds.get(kind, 0) + 1
        if got != want:
            k = 0
            while k < len(got) and k < len(want) and got[k] == want[k]:
                k += 1
            flags = [g for g in got if g.startswith('!')]
            if kind in ('filler', 'tail'):
                # which filler precedes the first missing object
                key = kind + ':neighbour-lost' if not flags else kind + ':' + flags[0]
            else:
                key = 'unknown:neighbour-lost:' + desc.split()[3] if not flags else 'unknown:' + flags[0]
            res.violation(key, '%s: delivered %d objects, expected %d; first difference at object %d (got %s, want %s)' % (
                desc, len([g for g in got if not g.startswith('!')]), len(want), k, got[k:k + 2], want[k:k + 2]), dict(case=i))
    for p in paths:
        try:
            os.unlink(p)
        except OSError:
            pass
    res.evaluations = nexh + nrand + nunk
    res.distinct = nexh + nunk
    res.exhaustive = False
    res.rule = ('streams K1 f1 K2 f2 .. Kn of known objects with unique ids (CanMessage/AppText with payload residues 0..3) and fillers: ALL %d '
                'strings over {L,O,B,J,other} up to length %d without the signature (exhaustive; "other" rotated over 5 byte values) + %d random '
                'fillers of length 10..200, cut into containers of every size 1..40 and larger; unknown objects: %d type codes x %d declared sizes x '
                '{plain body, body containing a complete fake object, followed by pad zeros, in 7..33-byte containers}; oracle: delivered '
                '(type, id, crc32 of re-encoding) sequence == K1..Kn; distinct = exhaustive fillers + unknown-object cases'
                % (nexh, 6 if tier == 'quick' else 8, nrand, len(UNKNOWN_TYPES), len(UNKNOWN_SIZES)))
    res.samples = [c[0] for c in cases[:3]] + [c[0] for c in cases[-3:]]
    res.extra = dict(files=len(cases), sessions_reported=seen, unknown_object_files_also_run_with_tiny_limits=len(cases) - first_unknown, exhaustive_fillers=nexh, random_fillers=nrand, unknown_object_cases=nunk, by_kind=kinds)
    if seen < len(cases) + (len(cases) - first_unknown) and not (sh.crashes or sh.hangs or sh2.crashes or sh2.hangs):
        res.inconclusive.append('only %d of %d files reported' % (seen, len(cases)))
    return res.finish()
