"""C11 - no data races (ThreadSanitizer on native stress) and no access to handed-over objects (ASan under controlled schedules)."""
import glob
import os
import re
import common
from checks.pipe_common import run_pipe

_FR = re.compile(r'^\s*#\d+\s+(.+?)\s+(\S+?):\d+(?::\d+)?\s+\(')


def tsan_reports(text):
    """-> list of (kind, [first library frame of each stack], full text)"""
    reps = []
    blocks = re.split(r'(?m)^={18}$', text)
    for b in blocks:
        m = re.search(r'WARNING: ThreadSanitizer: ([^\(\n]+)', b)
        if not m:
            continue
        kind = m.group(1).strip().replace(' ', '-')
        frames = []
        cur = None
        for line in b.splitlines():
            if re.match(r'^\s+(Write|Read|Previous|Atomic|Location|Mutex|Thread|As if)', line):
                if cur is not None:
                    frames.append(cur)
                cur = '?' if re.match(r'^\s+(Write|Read|Previous|Atomic)', line) else None
                continue
            fm = _FR.match(line)
            if fm and cur == '?' and '/Vector/BLF/' in fm.group(2) and '/harness/' not in fm.group(2):
                cur = common._short(fm.group(1))
        if cur is not None:
            frames.append(cur)
        frames = sorted(set(f for f in frames if f and f != '?'))[:2]
        reps.append((kind, frames, b.strip()[:3000]))
    return reps


def run(tier, replay=None):
    res = common.Result('C11', tier, 'exploration')
    # leg A: ThreadSanitizer, native threads
    total = 640 if tier == 'quick' else 10000
    exe = common.hbuild('h_tsan', ['h_tsan.cpp'], 'tsan')
    d = common.scratch_dir()
    logbase = os.path.join(d, 'tsan.log')
    env = common.san_env(dict(VERIF_TMP=d))
    env['TSAN_OPTIONS'] = 'halt_on_error=0:exitcode=0:log_path=%s:history_size=4:second_deadlock_stack=1' % logbase
    sh = common.Sharded(exe, lambda a, b: ['tsan', common.seed(), a, b], total, env=env, tag='tsan', timeout=1500, case_timeout=300).run()
    common.absorb(res, sh)
    nrep = 0
    for f in glob.glob(logbase + '.*'):
        for kind, frames, text in tsan_reports(open(f, errors='replace').read()):
            nrep += 1
            res.violation('tsan:%s:%s' % (kind, '|'.join(frames) or 'no-library-frame'), text)
        os.unlink(f)
    stA = common.merge_stats(sh.stats)
    # leg B: ASan under controlled schedules (prompt scribble + delete of every delivered object)
    configs, schedules = (128, 32) if tier == 'quick' else (3000, 128)
    resB = common.Result('C11', tier, 'exploration')
    stB = run_pipe(resB, tier, 'C11', configs, schedules)
    for k, v in resB.violations.items():
        res.violations.setdefault(k, v)
    res.inconclusive += resB.inconclusive
    res.evaluations = stA.get('sessions', 0) + stB.get('sessions', 0)
    res.distinct = stA.get('sessions', 0) + stB.get('distinct_signatures', 0)
    res.rule = ('leg A: native-thread sessions under ThreadSanitizer (read all / read k then close / write then close / write then destroy; '
                '6 pacing profiles; default and tiny limits; the application overwrites and deletes each object the instant read() returns, '
                'never touches an object after write(), polls currentObjectCount, currentUncompressedFileSize, eof, good, is_open, '
                'defaultLogContainerSize between calls); every distinct (kind, library frame pair) report is a violation. leg B: the controlled '
                'schedules of C06/C07 under ASan where a stale access after hand-over is a deterministic heap-use-after-free. '
                'distinct = TSan sessions + distinct schedule signatures')
    res.samples = (stA.get('samples', []) + stB.get('samples', []))[:6]
    res.extra = dict(tsan_sessions=stA.get('sessions', 0), tsan_objects=stA.get('objects', 0), observer_polls=stA.get('observer_polls', 0),
                     tsan_report_blocks=nrep, controlled_sessions=stB.get('sessions', 0), distinct_schedules=stB.get('distinct_signatures', 0))
    res.assumptions = ['TSan reports races only on executions it observes; libstdc++.so and zlib are not instrumented (fstream internals are '
                       'only touched under CompressedFile\'s mutex)']
    if stA.get('sessions', 0) < total and not (sh.crashes or sh.hangs):
        res.inconclusive.append('only %d of %d TSan sessions ran' % (stA.get('sessions', 0), total))
    return res.finish()
