"""C10 - corrupt or hostile input never causes a crash, undefined behaviour or a hang (enumerated mutations; libFuzzer in thorough)."""
import glob
import os
import shutil
import subprocess
import common
import blf


def base_files(d):
    """reference logs, error fixtures, corrupt raw samples wrapped into a container, library-written files"""
    files = list(blf.reference_logs())
    files += sorted(glob.glob(os.path.join(common.FIX, 'errors', '*.blf')))
    for i, f in enumerate(sorted(glob.glob(os.path.join(common.FIX, 'lobj', '*', 'corrupt', '*.lobj')))):
        p = os.path.join(d, 'corrupt_raw_%d.blf' % i)
        open(p, 'wb').write(blf.wrap(open(f, 'rb').read(), 0, 0))
        files.append(p)
    # library-written files (small sequences, several configurations)
    exe = common.hbuild('h_file', ['h_file.cpp'], 'asan', need_reflect=True)
    g = os.path.join(d, 'libwritten')
    os.makedirs(g, exist_ok=True)
    subprocess.run([exe, 'gen', str(common.seed()), '0', '120', g, '4'], stdout=subprocess.DEVNULL, stderr=subprocess.DEVNULL,
                   env=common.san_env(dict(VERIF_TMP=g)), timeout=600)
    lw = [f for f in sorted(glob.glob(os.path.join(g, '*.blf'))) if 200 < os.path.getsize(f) < 6000][:40]
    if len(lw) < 20:
        raise common.Inconclusive('could not produce library-written seed files (%d)' % len(lw))
    return files + lw, len(lw)


def narrow_leaks(sh, exe, lst, stride, env):
    """a window in which LeakSanitizer found unreachable blocks -> the first session that leaks on its own, keyed by allocation stack"""
    import re
    out = []
    for key, text, case in sh.viols:
        m = re.match(r'window (\d+) (\d+) ', text)
        if not key.startswith('memory-leaked') or not m:
            out.append((key, text, case))
            continue
        found = None
        e = dict(env, VERIF_LEAK_WINDOW='1')
        for c in range(int(m.group(1)), int(m.group(2))):
            try:
                p = subprocess.run([exe, 'c10', str(common.seed()), str(c), str(c + 1), lst, str(stride)], stdout=subprocess.PIPE, stderr=subprocess.PIPE,
                                   env=e, timeout=300)
            except subprocess.TimeoutExpired:
                continue
            o, err = p.stdout.decode(errors='replace'), p.stderr.decode(errors='replace')
            if '@viol memory-leaked' in o:
                ctx = [ln for ln in err.splitlines() if ln.startswith('@note ')]
                k = common.sanitizer_key(err) or 'lsan:leak'
                i = err.find('ERROR: LeakSanitizer')
                found = (k, 'case %d leaks on its own (one session per process): %s' % (c, err[i:i + 2000]), str(c))
                break
        out.append(found or (key, text + ' (no single session of the window leaked on its own)', case))
    sh.viols = out


def run(tier, replay=None):
    res = common.Result('C10', tier, 'fault_enumeration')
    d = common.scratch_dir()
    files, nlib = base_files(d)
    lst = os.path.join(d, 'c10.list')
    open(lst, 'w').write('\n'.join(files) + '\n')
    exe = common.hbuild('h_file', ['h_file.cpp'], 'asan', need_reflect=True)
    env = common.san_env(dict(VERIF_TMP=d), leaks=True)
    out = subprocess.check_output([exe, 'c10count', str(common.seed()), '0', '0', lst, '1'], env=env, timeout=600).split()
    space, targeted = int(out[1]), int(out[2])
    target = 200000 if tier == 'quick' else space
    stride = max(1, (space - targeted) // target)
    ncases = int(subprocess.check_output([exe, 'c10count', str(common.seed()), '0', '0', lst, str(stride)], env=env, timeout=600).split()[0])
    sh = common.Sharded(exe, lambda a, b: ['c10', common.seed(), a, b, lst, stride], ncases, env=env, tag='c10', timeout=1500,
                        max_restarts=200).run()
    narrow_leaks(sh, exe, lst, stride, env)
    common.absorb(res, sh)
    st = common.merge_stats(sh.stats)
    res.evaluations = st.get('sessions', 0)
    res.distinct = st.get('sessions', 0)
    res.exhaustive = (stride == 1)
    res.rule = ('seed files: 170 reference logs, 5 error fixtures, 2 corrupt raw samples wrapped into a container, %d library-written files; '
                'mutation space enumerated at file level (every byte -> {00,01,7f,80,ff}; every aligned 16/32-bit field -> {0,1,7f..,80..,ff..,'
                'old-1,old+1}; every truncation; container duplicate/delete/swap) and at inflated-stream level re-wrapped by the independent '
                'writer with method 0 and 2 (bytes, fields, truncations, object duplicate/delete/swap, objectSize -> {0..16, old-1, old+1, '
                '0x7fffffff, 0xffffffff}, headerSize x objectSize x headerVersion combinations, inconsistent container size/method fields): %d mutants; the '
                'bulk byte/field/truncation sub-spaces are sampled with stride %d (phase from VERIF_SEED), the targeted ones (blocks, size fields, '
                'header combinations, container fields) always run completely; '
                'oracle: open returns or throws the library\'s exception, read loop ends within 64*filesize+4096 objects, close returns, no '
                'ASan/UBSan/libstdc++-assertion report, no other exception, 256 MiB allocation cap surfaces as end of input, LeakSanitizer finds no '
                'unreachable block after any window of 64 sessions (a hit is narrowed to one session per process); every mutant is '
                'distinct by construction' % (nlib, space, stride))
    res.samples = st.get('samples', [])[:6]
    res.extra = dict(seed_files=len(files), mutation_space=space, targeted_mutants_always_run=targeted, stride=stride, opened=st.get('opened', 0), open_threw=st.get('open_threw', 0),
                     objects_delivered=st.get('objects_delivered', 0), alloc_cap_hits=st.get('alloc_cap_hits', 0), leak_checks=st.get('leak_checks', 0), kinds=st.get('kinds', {}))
    res.assumptions = ['ASan red zones miss intra-object and far out-of-bounds accesses; _GLIBCXX_ASSERTIONS and vector annotations narrow the gap']
    if tier == 'thorough' or os.environ.get('VERIF_FUZZ'):
        fuzz_leg(res, d, files, int(os.environ.get('VERIF_FUZZ_RUNS', '0')) or None)
    if st.get('sessions', 0) < ncases and not (sh.crashes or sh.hangs or sh.viols):
        res.inconclusive.append('only %d of %d mutants ran' % (st.get('sessions', 0), ncases))
    return res.finish()


def fuzz_leg(res, d, files, runs=None):
    """libFuzzer (clang, ASan+UBSan): codec-level target on object images and file-level target with a structure-aware mutator"""
    import concurrent.futures as cf
    import re
    import struct
    fz = {}
    for name, total in (('fz_codec', runs or 16000000), ('fz_file', (runs or 3200000) // (1 if runs is None else 10) or 1000)):
        exe = common.hbuild(name, [name + '.cpp'], 'fuzz')
        seeds = os.path.join(d, name + '.seeds')
        os.makedirs(seeds, exist_ok=True)
        if name == 'fz_codec':
            k = 0
            for f in blf.reference_logs():
                r = blf.load_reference(f)
                for ty, img, osz in blf.object_images(r['stream']):
                    if ty < 256:
                        open(os.path.join(seeds, 'img%d' % k), 'wb').write(bytes([ty]) + img)
                        k += 1
        else:
            for i, f in enumerate(files):
                if os.path.getsize(f) < 8000:
                    shutil.copy(f, os.path.join(seeds, 'seed%d' % i))
        per = max(1000, total // common.NCPU)

        def one(i, exe=exe, seeds=seeds, name=name, per=per):
            out = os.path.join(d, '%s.out%d' % (name, i))
            os.makedirs(out, exist_ok=True)
            env = common.san_env(dict(VERIF_TMP=d), leaks=True)      # libFuzzer runs LeakSanitizer after an execution whose malloc/free counts differ
            env['ASAN_OPTIONS'] += ':quarantine_size_mb=8:alloc_dealloc_mismatch=0'   # the target replaces operator new (allocation cap); libFuzzer's own units mix both
            # ASan keeps a record of every thread ever created and the file-level target starts two per execution: the process is
            # restarted every 40 000 executions (the corpus directory carries over) so that the sanitizer's own bookkeeping stays small
            rounds = max(1, (per + 39999) // 40000) if name == 'fz_file' else 1
            errs = []
            rc = 0
            for k in range(rounds):
                r = subprocess.run([exe, out, seeds, '-runs=%d' % (per // rounds), '-seed=%d' % (common.seed() * 100 + i + 1 + 1000 * k), '-timeout=20',
                                    '-rss_limit_mb=6000', '-malloc_limit_mb=2048', '-max_len=8192', '-artifact_prefix=%s/' % out,
                                    '-print_final_stats=1', '-verbosity=0'],
                                   stdout=subprocess.PIPE, stderr=subprocess.PIPE, env=env, timeout=6 * 3600)
                errs.append(r.stderr.decode(errors='replace'))
                if r.returncode != 0:
                    rc = r.returncode
                    break
            return i, rc, '\n'.join(errs), out
        execs = 0
        cov = 0
        crashes = 0
        with cf.ThreadPoolExecutor(common.NCPU) as ex:
            for i, rc, err, out in ex.map(one, range(common.NCPU)):
                execs += sum(int(x) for x in re.findall(r'stat::number_of_executed_units:\s*(\d+)', err))
                cov += sum(int(x) for x in re.findall(r'stat::new_units_added:\s*(\d+)', err))
                if rc != 0:
                    crashes += 1
                    key = common.sanitizer_key(err)
                    if 'VERIF-ORACLE' in err:
                        key = 'fuzz-oracle:' + re.search(r'VERIF-ORACLE: ([a-z ]+)', err).group(1).strip().replace(' ', '-')
                    elif 'ERROR: libFuzzer: timeout' in err:
                        key = 'hang:libfuzzer-timeout'
                    arts = [os.path.join(out, a) for a in os.listdir(out) if a.startswith(('crash-', 'timeout-', 'oom-', 'leak-'))]
                    keep = None
                    if arts:
                        keep = os.path.join(res.replay_dir, name + '-' + os.path.basename(arts[0]))
                        os.makedirs(res.replay_dir, exist_ok=True)
                        shutil.copy(arts[0], keep)
                    i0 = max(err.find('ERROR:'), err.find('runtime error'), err.find('VERIF-ORACLE'), 0)
                    res.violation('%s:%s' % (name, key or 'exit-%d' % rc), err[i0:i0 + 2500], dict(artifact=keep))
        fz[name] = dict(executions=execs, new_corpus_units_found=cov, crashing_processes=crashes, runs_per_process=per)
        res.evaluations += execs
    res.extra['libfuzzer'] = fz
