"""C10 - corrupt or hostile input never causes a crash, undefined behaviour or a hang (enumerated mutations; libFuzzer in thorough)."""
import glob
import os
import shutil
import subprocess
import common
import blf


def base_files(d):
    """reference logs, error fixtures, corrupt raw samples wrapped into a container, library-written files"""
    files = list(blf.reference_logs())
    files += sorted(glob.glob(os.path.join(common.FIX, 'errors', '*.blf')))
    for i, f in enumerate(sorted(glob.glob(os.path.join(common.FIX, 'lobj', '*', 'corrupt', '*.lobj')))):
        p = os.path.join(d, 'corrupt_raw_%d.blf' % i)
        open(p, 'wb').write(blf.wrap(open(f, 'rb').read(), 0, 0))
        files.append(p)
    # library-written files (small sequences, several configurations)
    exe = common.hbuild('h_file', ['h_file.cpp'], 'asan', need_reflect=True)
    g = os.path.join(d, 'libwritten')
    os.makedirs(g, exist_ok=True)
    subprocess.run([exe, 'gen', str(common.seed()), '0', '120', g, '4'], stdout=subprocess.DEVNULL, stderr=subprocess.DEVNULL,
                   env=common.san_env(dict(VERIF_TMP=g)), timeout=600)
    lw = [f for f in sorted(glob.glob(os.path.join(g, '*.blf'))) if 200 < os.path.getsize(f) < 6000][:40]
    if len(lw) < 20:
        raise common.Inconclusive('could not produce library-written seed files (%d)' % len(lw))
    return files + lw, len(lw)


def run(tier, replay=None):
    res = common.Result('C10', tier, 'fault_enumeration')
    d = common.scratch_dir()
    files, nlib = base_files(d)
    lst = os.path.join(d, 'c10.list')
    open(lst, 'w').write('\n'.join(files) + '\n')
    exe = common.hbuild('h_file', ['h_file.cpp'], 'asan', need_reflect=True)
    env = common.san_env(dict(VERIF_TMP=d))
    out = subprocess.check_output([exe, 'c10count', str(common.seed()), '0', '0', lst, '1'], env=env, timeout=600).split()
    space = int(out[1])
    target = 400000 if tier == 'quick' else space
    stride = max(1, space // target)
    ncases = (space + stride - 1) // stride
    sh = common.Sharded(exe, lambda a, b: ['c10', common.seed(), a, b, lst, stride], ncases, env=env, tag='c10', timeout=1500,
                        max_restarts=200).run()
    common.absorb(res, sh)
    st = common.merge_stats(sh.stats)
    res.evaluations = st.get('sessions', 0)
    res.distinct = st.get('sessions', 0)
    res.exhaustive = (stride == 1)
    res.rule = ('seed files: 170 reference logs, 5 error fixtures, 2 corrupt raw samples wrapped into a container, %d library-written files; '
                'mutation space enumerated at file level (every byte -> {00,01,7f,80,ff}; every aligned 16/32-bit field -> {0,1,7f..,80..,ff..,'
                'old-1,old+1}; every truncation; container duplicate/delete/swap) and at inflated-stream level re-wrapped by the independent '
                'writer with method 0 and 2 (bytes, fields, truncations, object duplicate/delete/swap, objectSize -> {0..16, old-1, old+1, '
                '0x7fffffff, 0xffffffff}, inconsistent container size/method fields): %d mutants, every %d-th one run (phase from VERIF_SEED); '
                'oracle: open returns or throws the library\'s exception, read loop ends within 64*filesize+4096 objects, close returns, no '
                'ASan/UBSan/libstdc++-assertion report, no other exception, 256 MiB allocation cap surfaces as end of input; every mutant is '
                'distinct by construction' % (nlib, space, stride))
    res.samples = st.get('samples', [])[:6]
    res.extra = dict(seed_files=len(files), mutation_space=space, stride=stride, opened=st.get('opened', 0), open_threw=st.get('open_threw', 0),
                     objects_delivered=st.get('objects_delivered', 0), alloc_cap_hits=st.get('alloc_cap_hits', 0), kinds=st.get('kinds', {}))
    res.assumptions = ['ASan red zones miss intra-object and far out-of-bounds accesses; _GLIBCXX_ASSERTIONS and vector annotations narrow the gap']
    if st.get('sessions', 0) < ncases and not (sh.crashes or sh.hangs or sh.viols):
        res.inconclusive.append('only %d of %d mutants ran' % (st.get('sessions', 0), ncases))
    return res.finish()
