"""C06 - no API call blocks forever: online deadlock monitor in the schedule controller + step budget + thread table."""
import common
from checks.pipe_common import run_pipe, SITES


def run(tier, replay=None):
    res = common.Result('C06', tier, 'exploration')
    configs, schedules = (384, 64) if tier == 'quick' else (6000, 256)
    st = run_pipe(res, tier, 'C06', configs, schedules)
    res.rule = ('session templates (read all, read k then close/destroy, write then close/destroy, open/close) x generated configurations '
                '(object sizes 48 B .. 4x(buffer+container), container below/at/above buffer, queue capacity 1/2/3/10, level 0/6, shipped '
                'limits in 1 of 16) x seeded schedules (random walk, PCT d=1..3, starve/favour each thread, spurious wake-ups) in serial '
                'mode; verdict = no deadlock (no thread enabled, not all finished), step budget not exceeded, every session thread '
                'finished when close()/~File returns; plus a systematic leg: small sessions (1-2 objects, tiny buffers, read/early-close/write) with EVERY schedule of at most 1 (quick) / 2 (thorough) preemptions explored depth-first; distinct = distinct schedule signatures (summed per worker process)')
    res.assumptions = ['interleavings explored at synchronisation calls only (atomics are not scheduling points)',
                       'random/PCT exploration, not exhaustive']
    blocked = st.get('blocked_at', {})
    for s in SITES:
        if not blocked.get(s):
            res.inconclusive.append('coverage gate: wait site %s never observed blocked' % s)
    if res.distinct < 1000:
        res.inconclusive.append('coverage gate: fewer than 1000 distinct schedule signatures (%d)' % res.distinct)
    if not st.get('early_close_sessions'):
        res.inconclusive.append('coverage gate: no early-close session ran')
    return res.finish()
