"""C03 - every written object is framed exactly as its own header declares (framing monitor on a tracing stream)."""
import os
import common
import blf


def pad_sets():
    refs = [blf.load_reference(f) for f in blf.reference_logs()]
    bad = [r['path'] for r in refs if r['errs'] or r['end'] != r['size']]
    if len(refs) < 100 or bad:
        raise common.Inconclusive('independent decoder does not accept the reference logs: %s' % bad[:3])
    pad, nopad = blf.observe_padding(refs)
    if set(pad) & set(nopad):
        raise common.Inconclusive('reference logs disagree about padding for %s' % (set(pad) & set(nopad)))
    return sorted(pad), sorted(nopad)


def run(tier, replay=None):
    res = common.Result('C03', tier, 'exploration')
    per_class = 1000 if tier == 'quick' else 20000
    pad, nopad = pad_sets()
    exe = common.hbuild('h_codec', ['h_codec.cpp'], 'asan', need_reflect=True)
    env = common.san_env(dict(VERIF_PADSET=','.join(map(str, pad)), VERIF_NOPADSET=','.join(map(str, nopad))))
    import subprocess
    n = int(subprocess.check_output([exe, 'nclasses', '0', '0', '0'], env=env).split()[0])
    sh = common.Sharded(exe, lambda a, b: ['c03', common.seed(), a, b, per_class], n, env=env, chunk=1, tag='c03',
                        timeout=1500).run()
    common.absorb(res, sh)
    st = common.merge_stats(sh.stats)
    res.evaluations = st.get('states', 0)
    res.distinct = set(st.get('shapes', []))
    res.rule = ('per class: %d object states (payload lengths 0..9 for every container first, then random scalars with '
                'boundary bias, variant selectors, stale length fields, re-used objects, default-constructed); distinct = '
                '(class, container size residues mod 4, variant selectors) signatures' % per_class)
    res.samples = st.get('samples', [])[:8]
    # coverage gate: every pad type that has a variable payload was seen at every residue
    residues = set(st.get('residues', []))
    res.extra = dict(classes=st.get('classes', 0), variable_classes=st.get('variable_classes', 0), decoded_ok=st.get('decoded', 0),
                     stale_length_states=st.get('stale', 0), reused_object_states=st.get('reused', 0),
                     pad_types_observed=pad, nopad_types_observed=nopad, residues_seen=len(residues))
    res.assumptions = ['pad set = the one observed in the 170 reference logs by the independent decoder',
                       'ASan red zones + _GLIBCXX_SANITIZE_VECTOR see reads outside containers, not intra-object overflows']
    missing = [('%d%%%d' % (t, m)) for t in pad for m in (1, 2, 3) if ('%d%%%d' % (t, m)) not in residues]
    if missing and not res.violations:
        res.inconclusive.append('coverage gate: pad types not seen at every residue mod 4: %s' % missing[:10])
    if st.get('classes', 0) != n and not sh.crashes:
        res.inconclusive.append('only %d of %d classes reported' % (st.get('classes', 0), n))
    return res.finish()
