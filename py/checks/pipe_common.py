"""Shared runner for the controlled-schedule pipeline sessions (C06, C07, C11 leg B use the same executions)."""
import os
import common

SITES = ['ObjectQueue::read', 'ObjectQueue::write', 'UncompressedFile::read', 'UncompressedFile::write(bytes)',
         'UncompressedFile::write(container)']


def run_pipe(res, tier, prefix, configs, schedules):
    exe = common.hbuild('h_pipe', ['h_pipe.cpp', 'vsched.cpp'], 'asan')
    d = common.scratch_dir()
    env = common.san_env(dict(VERIF_TMP=d))
    total = configs * schedules
    chunk = schedules * max(1, configs // (common.NCPU * 6))
    sh = common.Sharded(exe, lambda a, b: ['pipe', common.seed(), a, b, schedules], total, env=env, chunk=chunk, tag='pipe',
                        timeout=1500, case_timeout=180).run()
    # monitor violations: only this property's clauses; crashes / hangs in a valid session concern every pipeline property
    keep = [(k, t, c) for (k, t, c) in sh.viols if k.startswith(prefix + ':')]
    if prefix == 'C07':
        # a session that never completes under some interleaving also breaks "the objects delivered are exactly the file's objects"
        keep += [(prefix + ':session-does-not-complete:' + k[4:], t, c) for (k, t, c) in sh.viols if k.startswith('C06:deadlock') or k.startswith('C06:livelock')]
    other = sorted(set(k for (k, t, c) in sh.viols if not k.startswith(prefix + ':')))
    sh.viols = [(k[len(prefix) + 1:], t, c) for (k, t, c) in keep]
    common.absorb(res, sh)
    st = common.merge_stats(sh.stats)
    if prefix in ('C06', 'C07'):
        # systematic leg: small file sessions, EVERY schedule with at most `bound` preemptions (stateless depth-first exploration)
        # quick: bound 1 over 32 configurations; thorough: bound 1 over all 192 and bound 2 over 24 of them (budgeted: truncation is reported)
        legs = [(1, 32, 7, 200000)] if tier == 'quick' else [(1, 192, 1, 200000), (2, 24, 8, 60000)]
        kept = []
        viols2 = []
        crashed = False
        for bound, ncfg, stride, budget in legs:
            sh2 = common.Sharded(exe, lambda a, b, stride=stride, bound=bound, budget=budget: ['pipedfs', common.seed(), a * stride, a * stride + 1, bound, budget],
                                 ncfg, env=env, chunk=1, tag='pipedfs%d' % bound, timeout=1500, case_timeout=1450)
            sh2.keep_prefix = '@dfs '
            sh2.run()
            viols2 += sh2.viols
            sh2_all = sh2
            kept.append((bound, ncfg, list(sh2.kept)))
            crashed = crashed or bool(sh2.crashes or sh2.hangs)
            sh2.viols = []
            common.absorb(res, sh2)
        sh2 = sh2_all
        sh2.viols = viols2
        sh2.crashes, sh2.hangs, sh2.problems = [], [], []
        keep2 = [(k, t, c) for (k, t, c) in sh2.viols if k.startswith(prefix + ':')]
        if prefix == 'C07':
            keep2 += [(prefix + ':session-does-not-complete:' + k[4:], t, c) for (k, t, c) in sh2.viols if k.startswith('C06:deadlock') or k.startswith('C06:livelock')]
        sh2.viols = [(k[len(prefix) + 1:], t, c) for (k, t, c) in keep2]
        common.absorb(res, sh2)
        execs = sum(int(l.split()[2]) for _, _, ks in kept for l in ks)
        res.extra_systematic = [dict(preemption_bound=b, configurations=len(ks), executions=sum(int(l.split()[2]) for l in ks),
                                     truncated_configurations=sum(int(l.split()[3]) for l in ks),
                                     max_decisions_per_execution=max([int(l.split()[4]) for l in ks] or [0]),
                                     complete_up_to_bound=(len(ks) == n and not sum(int(l.split()[3]) for l in ks)),
                                     sample_configurations=[' '.join(l.split()[5:]) for l in ks[:3]]) for b, n, ks in kept]
        for b, n, ks in kept:
            if len(ks) < n and not (crashed or keep2):
                res.inconclusive.append('systematic leg (bound %d): only %d of %d configurations explored' % (b, len(ks), n))
        st['sessions'] = st.get('sessions', 0) + execs
    res.evaluations = st.get('sessions', 0)
    res.distinct = st.get('distinct_signatures', 0)
    res.samples = st.get('samples', [])[:8]
    res.extra = dict(configurations=configs, schedules_per_configuration=schedules, read_sessions=st.get('read_sessions', 0),
                     write_sessions=st.get('write_sessions', 0), early_close_sessions=st.get('early_close_sessions', 0), write_sessions_to_full_device=st.get('write_sessions_to_full_device', 0),
                     scheduling_points=st.get('steps', 0), max_steps_in_a_session=st.get('max_steps', 0),
                     blocked_at=st.get('blocked_at', {}), session_kinds=st.get('kinds', {}),
                     violations_seen_for_other_properties=other)
    if hasattr(res, 'extra_systematic'):
        res.extra['systematic'] = res.extra_systematic
    if st.get('sessions', 0) < total and not (sh.crashes or sh.hangs or keep or other):
        res.inconclusive.append('only %d of %d sessions ran' % (st.get('sessions', 0), total))
    return st
