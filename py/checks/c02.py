"""C02 - objects from Vector-produced logs survive decode-then-encode byte for byte (incl. shape-preserving overwrites)."""
import glob
import os
import struct
import common
import blf
from checks.c03 import pad_sets


def collect_images():
    imgs = []
    for f in blf.reference_logs():
        r = blf.load_reference(f)
        for ty, img, osz in blf.object_images(r['stream']):
            imgs.append((ty, osz, img, os.path.basename(f)))
    nlogs = len(imgs)
    raw = 0
    for f in sorted(glob.glob(os.path.join(common.FIX, 'lobj', '*', '*.lobj'))):
        b = open(f, 'rb').read()
        for ty, img, osz in blf.object_images(b):
            imgs.append((ty, osz, img, 'lobj/' + os.path.basename(f)))
            raw += 1
    return imgs, nlogs, raw


def run(tier, replay=None):
    res = common.Result('C02', tier, 'exploration')
    imgs, nlogs, raw = collect_images()
    if nlogs < 500 or raw < 4:
        raise common.Inconclusive('expected >= 500 reference images and >= 4 raw samples, found %d / %d' % (nlogs, raw))
    pad, nopad = pad_sets()
    d = common.scratch_dir()
    path = os.path.join(d, 'images.bin')
    with open(path, 'wb') as f:
        for ty, osz, img, origin in imgs:
            f.write(struct.pack('<III', ty, osz, len(img)) + img)
    exe = common.hbuild('h_codec', ['h_codec.cpp'], 'asan', need_reflect=True)
    env = common.san_env(dict(VERIF_PADSET=','.join(map(str, pad)), VERIF_NOPADSET=','.join(map(str, nopad))))
    extra = 0 if tier == 'quick' else 10000
    sh = common.Sharded(exe, lambda a, b: ['c02', common.seed(), a, b, path, extra], len(imgs) + 1, env=env, chunk=4, tag='c02',     # the extra case is the two-decoders-at-once stage
                        timeout=1500).run()
    common.absorb(res, sh)
    st = common.merge_stats(sh.stats)
    res.evaluations = st.get('mutated', 0) + st.get('images', 0)
    res.distinct = st.get('shape_preserving', 0)
    res.rule = ('every object image of the 170 reference logs and the raw lobj samples: decode, re-encode, compare byte for byte '
                '(recomputed size/length fields against recomputed values); then every byte between the base header and objectSize '
                'overwritten with {00,01,7f,80,ff,old^1,old^80} and every aligned 2/4/8-byte group with boundary values'
                + ('; plus %d random 2-3 byte simultaneous overwrites per image' % extra if extra else '') +
                '; plus a stage in which all images are decoded and re-encoded on two threads at once (40 rounds, opposite order). distinct_nontrivial = derived images that decode completely with the same shape (those must re-encode identically)')
    res.exhaustive = True
    res.samples = [s for s in st.get('samples', []) if s][:8]
    res.extra = dict(images=st.get('images', 0), images_from_logs=nlogs, raw_sample_objects=raw, types=len(set(st.get('types', []))),
                     images_decoded_whole=st.get('whole', 0), mutated_cases=st.get('mutated', 0),
                     shape_preserving_cases=st.get('shape_preserving', 0), undecodable_cases=st.get('undecodable', 0),
                     concurrent_decoder_rounds=st.get('concurrent_decoder_rounds', 0))
    if not st.get('concurrent_decoder_rounds') and not sh.crashes:
        res.inconclusive.append('the two-decoders-at-once stage did not run')
    if st.get('images', 0) != len(imgs) and not sh.crashes:
        res.inconclusive.append('only %d of %d images processed' % (st.get('images', 0), len(imgs)))
    return res.finish()
