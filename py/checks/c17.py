"""C17 - type codes agree between constructors, the factory and files; fresh objects are fully determined."""
import common


def run(tier, replay=None):
    res = common.Result('C17', tier, 'exploration')
    exe = common.hbuild('h_codec', ['h_codec.cpp'], 'asan', need_reflect=True)
    sh = common.Sharded(exe, lambda a, b: ['c17', common.seed(), a, b], 1, env=common.san_env(dict(VERIF_TMP=common.scratch_dir())), tag='c17', timeout=600).run()
    common.absorb(res, sh)
    st = common.merge_stats(sh.stats)
    res.evaluations = st.get('codes', 0) + st.get('ctor_checks', 0) + st.get('poison_constructions', 0) + st.get('file_round_trips', 0)
    res.distinct = st.get('codes', 0) + st.get('classes', 0)
    res.rule = ('all codes 0..255, boundary codes and 1000 random 32-bit codes through createObject vs the independent code->class '
                'table; every reflected class: constructor code -> factory -> same class, encoding carries the code; each class '
                'constructed in memory pre-filled with 00/FF/A5/5A, every reflected member and the encoding compared across patterns; '
                'every class default-constructed and every mapped code 0..255 written through File::write and read back through File::read '
                '(same class and code, then the sentinel object, then the end)')
    res.exhaustive = True
    res.samples = st.get('samples', [])[:8]
    res.extra = {k: v for k, v in st.items() if k != 'samples'}
    if not st.get('codes'):
        res.inconclusive.append('harness produced no statistics')
    return res.finish()
