"""C15 - the in-memory stream is a byte FIFO with iostream-like state (reference model compared after every operation)."""
import common


def run(tier, replay=None):
    res = common.Result('C15', tier, 'exploration')
    total = 500000 if tier == 'quick' else 40000000
    exe = common.hbuild('h_model', ['h_model.cpp'], 'asan')
    sh = common.Sharded(exe, lambda a, b: ['c15', common.seed(), a, b], total, tag='c15', timeout=1500).run()
    common.absorb(res, sh)
    st = common.merge_stats(sh.stats)
    res.evaluations = st.get('histories', 0)
    res.distinct = st.get('distinct', 0)
    res.rule = ('random non-blocking histories (<= 60 ops) over write(n), write(container m), read(n), seekg(+-k), nextLogContainer, '
                'dropOldData, setFileSize, setDefaultLogContainerSize(1..64); all observers and read bytes compared with the flat byte-queue '
                'model after every op; distinct = distinct op-kind sequences (summed per shard)')
    res.samples = st.get('samples', [])[:6]
    res.extra = {k: v for k, v in st.items() if k not in ('samples',)}
    res.assumptions = ['operations whose result the property does not define are not generated: reads after a failed read, seeks below the '
                       'drop mark, whole containers appended mid-container, declared end below the get position']
    if st.get('histories', 0) < total and not sh.crashes:
        res.inconclusive.append('only %d of %d histories ran' % (st.get('histories', 0), total))
    for gate in ('short_reads', 'drops', 'whole_containers', 'writes_straddling_containers'):
        if not st.get(gate):
            res.inconclusive.append('coverage gate: no %s observed' % gate)
    return res.finish()
