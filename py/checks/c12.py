"""C12 - buffered data stays bounded: allocation ledger + held-container hook sampled at quiescence under the controller."""
import common


def run(tier, replay=None):
    res = common.Result('C12', tier, 'exploration')
    configs, maxn = (64, 2048) if tier == 'quick' else (960, 16384)
    exe = common.hbuild('h_mem', ['h_mem.cpp', 'vsched.cpp', 'alloc.cpp'], 'plain')
    env = common.san_env(dict(VERIF_TMP=common.scratch_dir()))
    sh = common.Sharded(exe, lambda a, b: ['mem', common.seed(), a, b, maxn], configs, env=env, chunk=1, tag='c12', timeout=1500,
                        case_timeout=700).run()
    common.absorb(res, sh)
    st = common.merge_stats(sh.stats)
    res.evaluations = st.get('sessions', 0)
    res.distinct = st.get('configs', 0)
    res.rule = ('configurations (read/write, container 4 KiB..1 MiB, object size C/8 or C/3, shipped limits or hook-set buffer/queue) each run '
                'for N0, 4*N0, 16*N0 containers (N0 = smallest N that saturates the pipeline); read sessions starve the application thread, '
                'write sessions starve the compressed worker (schedule controller), held bytes sampled via verifHeld() after every k-th '
                'object; oracles: held <= max(B,S)+2C (read) / +3C (write) at every sample, peak heap flat in N beyond saturation (difference between 4*N0 and 16*N0 containers <= the legitimate dynamic range 2(max(B,S)+2C)+2C+(Q+1)S+64 KiB), '
                'heap returns to baseline; distinct = configurations')
    res.samples = st.get('samples', [])[:8]
    res.extra = dict(held_samples=st.get('held_samples', 0), quiescent_samples=st.get('quiescent_samples', 0), flatness_comparisons=st.get('flatness_comparisons', 0),
                     blocked_at=st.get('blocked_at', {}), max_containers_per_file=maxn)
    res.assumptions = ['live heap counted by malloc-family interposition (malloc_usable_size), plain -O1 build']
    if st.get('configs', 0) < configs and not (sh.crashes or sh.hangs or sh.viols):
        res.inconclusive.append('only %d of %d configurations ran' % (st.get('configs', 0), configs))
    if st.get('flatness_comparisons', 0) < configs // 2:
        res.inconclusive.append('coverage gate: only %d flatness comparisons' % st.get('flatness_comparisons', 0))
    if not st.get('quiescent_samples'):
        res.inconclusive.append('coverage gate: never sampled with both workers blocked')
    b = st.get('blocked_at', {})
    for site in ('UncompressedFile::write(container)', 'ObjectQueue::write', 'UncompressedFile::write(bytes)'):
        if not b.get(site):
            res.inconclusive.append('coverage gate: back-pressure site %s never blocked' % site)
    return res.finish()
