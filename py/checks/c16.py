"""C16 - the object queue is a bounded FIFO with exact end-of-stream and abort (sequential reference model + concurrent event-log checker)."""
import common


def run(tier, replay=None):
    res = common.Result('C16', tier, 'exploration')
    total = 400000 if tier == 'quick' else 5000000
    exe = common.hbuild('h_model', ['h_model.cpp'], 'asan')
    sh = common.Sharded(exe, lambda a, b: ['c16', common.seed(), a, b], total, tag='c16', timeout=1500).run()
    common.absorb(res, sh)
    st = common.merge_stats(sh.stats)
    # concurrent half under the schedule controller
    ctotal = 60000 if tier == 'quick' else 2000000
    exe2 = common.hbuild('h_queue', ['h_queue.cpp', 'vsched.cpp'], 'asan')
    sh2 = common.Sharded(exe2, lambda a, b: ['c16c', common.seed(), a, b], ctotal, tag='c16c', timeout=1500).run()
    common.absorb(res, sh2)
    st2 = common.merge_stats(sh2.stats)
    # systematic leg: every schedule with at most `bound` preemptions of each small configuration (stateless DFS over the real code)
    bound = 2 if tier == 'quick' else 3
    ncfg = 60
    sh3 = common.Sharded(exe2, lambda a, b: ['c16dfs', common.seed(), a, b, bound, 3000000], ncfg, tag='c16dfs', chunk=1, timeout=1500,
                         case_timeout=1300).run()
    common.absorb(res, sh3)
    st3 = common.merge_stats(sh3.stats)
    res.evaluations = st.get('histories', 0) + st2.get('sessions', 0) + st3.get('dfs_executions', 0)
    res.distinct = st.get('distinct', 0) + st2.get('distinct_signatures', 0) + st3.get('distinct_signatures', 0)
    res.rule = ('sequential: random non-blocking histories (<= 40 ops over write, read, setFileSize, abort, setBufferSize, observers) against '
                'the FIFO model, destructor frees queued objects exactly once; concurrent: 1 producer (0..4 unique objects) + 1 consumer + 1 '
                'controller thread issuing setFileSize(tellp) / abort / setFileSize(n) at a PRNG-chosen point or, once the producer is done, setFileSize(k < n) '
                '(the consumer may already be blocked on the empty queue) or raising the capacity while the producer may be blocked at the old one, capacities 1..3, under the schedule controller; '
                'event-log checker: FIFO prefix, exactly-once, capacity inequality, null implies drained, abort releases all, no leak. '
                'distinct = op-kind sequences + schedule signatures')
    res.samples = (st.get('samples', []) + st2.get('samples', []))[:8]
    res.extra = dict(sequential={k: v for k, v in st.items() if k != 'samples'}, concurrent={k: v for k, v in st2.items() if k != 'samples'},
                     systematic=dict(preemption_bound=bound, configurations=st3.get('dfs_configurations', 0), executions=st3.get('dfs_executions', 0),
                                     truncated_configurations=st3.get('dfs_truncated_configurations', 0),
                                     max_decisions_per_execution=st3.get('max_decisions_per_execution', 0),
                                     complete_up_to_bound=(st3.get('dfs_configurations', 0) == ncfg and not st3.get('dfs_truncated_configurations', 0))))
    if st3.get('dfs_configurations', 0) < ncfg and not (sh3.crashes or sh3.viols or sh3.hangs):
        res.inconclusive.append('systematic leg: only %d of %d configurations explored' % (st3.get('dfs_configurations', 0), ncfg))
    if st.get('histories', 0) < total and not sh.crashes:
        res.inconclusive.append('only %d of %d sequential histories ran' % (st.get('histories', 0), total))
    if st2.get('sessions', 0) < ctotal and not (sh2.crashes or sh2.viols):
        res.inconclusive.append('only %d of %d concurrent sessions ran' % (st2.get('sessions', 0), ctotal))
    for gate in ('producer_blocked_at_capacity', 'null_results', 'aborts'):
        if not st2.get(gate):
            res.inconclusive.append('coverage gate (concurrent): no %s observed' % gate)
    return res.finish()
