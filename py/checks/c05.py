"""C05 - header statistics are exact and agree with the reader's running counters."""
import os
import struct
import subprocess
import common
import blf
from checks import gen_common


def run(tier, replay=None):
    res = common.Result('C05', tier, 'exploration')
    total = 3200 if tier == 'quick' else 32000
    shapes = set()

    def judge(meta, data, E, pbs):
        cfg = 'level=%d C=%d trailer=%d idx=%d %s' % (meta['level'], meta['C'], meta['trailer'], meta['idx'], meta['shape'])
        errs = []
        h = blf.parse_header(data)
        conts, end = blf.parse_containers(data, errs)

        def bad(key, text):
            res.violation(key, text + ' ' + cfg, dict(case=meta['idx']))
        if h['fileSize'] != len(data):
            bad('header:fileSize', 'header says %d, file has %d bytes' % (h['fileSize'], len(data)))
        exp_us = 144 + sum(32 + c['usize'] for c in conts)
        if h['uncompressedFileSize'] != exp_us:
            bad('header:uncompressedFileSize', 'header %d, recomputed %d over %d containers' % (h['uncompressedFileSize'], exp_us, len(conts)))
        if h['objectCount'] != meta['nobj'] - meta['n115']:
            bad('header:objectCount', 'header %d, written %d (%d restore-point objects)' % (h['objectCount'], meta['nobj'], meta['n115']))
        if meta['trailer']:
            if not conts or h['restorePointsOffset'] != conts[-1]['pos']:
                bad('header:restorePointsOffset', 'header %d, trailing container at %s' % (h['restorePointsOffset'], conts[-1]['pos'] if conts else None))
        elif h['restorePointsOffset'] != 0:
            bad('header:restorePointsOffset-without-trailer', 'header %d' % h['restorePointsOffset'])
        for f, k in (('apiNumber', 'apiNumber'), ('applicationId', 'applicationId'), ('compressionLevel', 'hdrCompressionLevel'),
                     ('applicationMajor', 'applicationMajor'), ('applicationMinor', 'applicationMinor'), ('applicationBuild', 'applicationBuild')):
            if h[f] != meta[k]:
                bad('header:caller-field:' + f, 'on disk %d, caller set %d' % (h[f], meta[k]))
        if list(h['measurementStartTime']) != meta['t1'] or list(h['lastObjectTime']) != meta['t2']:
            bad('header:caller-field:time', 'on disk %s %s' % (h['measurementStartTime'], h['lastObjectTime']))
        if any(h['reserved']):
            bad('header:reserved-nonzero', str(h['reserved']))
        # writer's own view after close
        if (meta['w_fsize'], meta['w_usize'], meta['w_count']) != (h['fileSize'], h['uncompressedFileSize'], h['objectCount']):
            bad('writer-statistics!=disk', 'fileStatistics after close %s' % ((meta['w_fsize'], meta['w_usize'], meta['w_count']),))
        # reader that consumed the file: running counters == header values
        if meta['r_objects'] != meta['nobj']:
            bad('reader:objects', 'read %d of %d' % (meta['r_objects'], meta['nobj']))
        if meta['r_usize'] != h['uncompressedFileSize'] or meta['r_hdr_usize'] != h['uncompressedFileSize']:
            bad('reader:currentUncompressedFileSize', 'reader %d, header %d' % (meta['r_usize'], h['uncompressedFileSize']))
        if meta['r_count'] != h['objectCount'] or meta['r_hdr_count'] != h['objectCount']:
            bad('reader:currentObjectCount', 'reader %d, header %d' % (meta['r_count'], h['objectCount']))
        shapes.add((meta['level'], meta['C'], meta['trailer'], meta['n115'] > 0, min(meta['nobj'], 3)))
        if len(res.samples) < 5 and meta['nobj'] > 1:
            res.samples.append('%s -> fileSize=%d uncompressed=%d count=%d rpo=%d api=%d' % (cfg, h['fileSize'], h['uncompressedFileSize'], h['objectCount'],
                                                                                           h['restorePointsOffset'], h['apiNumber']))

    gen_common.run_gen(res, tier, total, judge)
    # reader side on Vector's own logs
    # a session of more than 4 GiB (plain build, compressible payloads): header sizes and both sets of counters vs the container chain
    import threading
    big = common.hbuild('h_big', ['h_big.cpp'], 'plain')
    nbig = 1 if tier == 'quick' else 2
    bigsh = common.Sharded(big, lambda a, b: ['big', common.seed() + 7, a, b], nbig, env=common.san_env(dict(VERIF_TMP=common.scratch_dir())), chunk=1,
                           tag='c05big', timeout=2400, case_timeout=1000)
    bt = threading.Thread(target=bigsh.run)
    bt.start()
    exe = common.hbuild('h_file', ['h_file.cpp'], 'asan', need_reflect=True)
    logs = blf.reference_logs()
    lst = os.path.join(common.scratch_dir(), 'reflogs.txt')
    open(lst, 'w').write('\n'.join(logs) + '\n')
    sh = common.Sharded(exe, lambda a, b: ['c05r', common.seed(), a, b, lst], len(logs), tag='c05r', timeout=900)
    sh.run()
    common.absorb(res, sh)
    nref = 0
    for w in []:
        pass
    import re
    outs = []
    # @ref lines are in the worker outputs collected by Sharded (viols/stats only) -> re-run single process to get lines cheaply
    r = subprocess.run([exe, 'c05r', str(common.seed()), '0', str(len(logs)), lst], stdout=subprocess.PIPE, stderr=subprocess.PIPE,
                       env=common.san_env(), timeout=900)
    for line in r.stdout.decode().splitlines():
        if line.startswith('@ref '):
            i, hu, hc, cu, cc, n, n115 = map(int, line.split()[1:])
            ref = blf.load_reference(logs[i])
            name = os.path.basename(logs[i])
            nref += 1
            if hu != ref['header']['uncompressedFileSize'] or hc != ref['header']['objectCount']:
                res.violation('reference:header-misread', '%s header %d/%d library %d/%d' % (name, ref['header']['uncompressedFileSize'], ref['header']['objectCount'], hu, hc))
            if cu != hu:
                res.violation('reference:currentUncompressedFileSize', '%s reader %d header %d' % (name, cu, hu))
            if cc != hc:
                res.violation('reference:currentObjectCount', '%s reader %d header %d (%d objects, %d restore points)' % (name, cc, hc, n, n115))
    res.evaluations += nref
    bt.join()
    common.absorb(res, bigsh)
    bst = common.merge_stats(bigsh.stats)
    res.evaluations += bst.get('big_sessions', 0)
    res.distinct = shapes
    res.rule = ('files as in C04 with random caller-supplied header fields (boundary bias); header on disk vs recomputation from the independent '
                'container walk (fileSize, uncompressedFileSize = 144 + sum(32 + usize), objectCount, restorePointsOffset, caller fields verbatim), '
                'writer\'s fileStatistics after close, and a reader consuming the file: running counters == header; plus the same reader check on '
                'all 170 reference logs; plus one (quick) / two (thorough) sessions of more than 2^32 bytes whose header sizes, writer and reader counters are '
                'compared with the container chain; distinct = (level, C, trailer, has restore-point objects, #objects class)')
    res.extra = dict(reference_logs_checked=nref, sessions_beyond_4GiB=bst.get('big_sessions', 0), max_stream_position=bst.get('max_stream_position', 0))
    if bst.get('big_sessions', 0) < nbig and not (bigsh.viols or bigsh.crashes or bigsh.hangs):
        res.inconclusive.append('4 GiB sessions: %d of %d reported' % (bst.get('big_sessions', 0), nbig))
    if nref < len(logs):
        res.inconclusive.append('only %d of %d reference logs reported' % (nref, len(logs)))
    if res.evaluations - nref < total and not res.violations:
        res.inconclusive.append('only %d of %d files judged' % (res.evaluations - nref, total))
    return res.finish()
