"""C14 - output bytes are a deterministic function of objects and configuration (poison patterns, stack patterns, repetition; memcheck in thorough)."""
import os
import re
import subprocess
import common
import blf

PATTERNS = ['00', 'ff', 'a5', '5a']


def attribute(exe, env, idx, data, off, metapath):
    """map a differing file offset to (object index, class, member)"""
    try:
        lines = open(metapath).read().split('\n')
        conts, _ = blf.parse_containers(data, None)
        spos = None
        cum = 0
        where = 'file header' if off < 144 else 'container header/padding'
        for c in conts:
            if c['pos'] + 32 <= off < c['pos'] + c['osz'] and c['method'] == 0:
                spos = cum + (off - c['pos'] - 32)
            cum += c['usize']
        if spos is None:
            return where + (' (compressed payload: offset not mappable)' if any(c['method'] for c in conts) else '')
        prev = 0
        for i, l in enumerate(lines[1:]):
            if not l.strip():
                continue
            name, end = l.split()
            if spos < int(end):
                r = subprocess.run([exe, 'c14attr', str(common.seed()), str(idx), str(i), str(spos - prev)], stdout=subprocess.PIPE, env=env, timeout=60)
                return 'object %d %s member %s (offset %d in object)' % (i, name, r.stdout.decode().strip(), spos - prev)
            prev = int(end)
    except Exception as e:      # attribution is best effort
        return 'attribution failed: %s' % e
    return 'beyond last object'


def run(tier, replay=None):
    res = common.Result('C14', tier, 'exploration')
    total = 320 if tier == 'quick' else 15000
    d = common.scratch_dir()
    builds = []
    exe_plain = common.hbuild('h_file', ['h_file.cpp', 'alloc.cpp'], 'plain', extra=['-DWITH_ALLOC'], need_reflect=True)
    for p in PATTERNS:
        builds.append(('heap' + p, exe_plain, p, p == '00'))
    for fl in ('patt', 'zero'):
        builds.append(('stack-' + fl, common.hbuild('h_file', ['h_file.cpp', 'alloc.cpp'], fl, extra=['-DWITH_ALLOC'], need_reflect=True), 'a5', False))
    nfiles = 0
    reps = 0
    for tag, exe, pat, repeat in builds:
        env = common.san_env(dict(VERIF_TMP=d))
        # 'earlier activity in the process': the ff run writes every file as the first session of a fresh process, the 5a run in
        # batches of 7, the others in the default batches - the same file is preceded by different sessions in each
        chunk = 1 if tag == 'heapff' else 7 if tag == 'heap5a' else None
        sh = common.Sharded(exe, lambda a, b: ['c14w', common.seed(), a, b, d, tag, pat, 1 if repeat else 0], total, env=env, chunk=chunk, tag='c14' + tag,
                            timeout=1500).run()
        common.absorb(res, sh)
        st = common.merge_stats(sh.stats)
        nfiles += st.get('files', 0)
        reps += st.get('repetitions_equal', 0)
    env = common.san_env(dict(VERIF_TMP=d))
    compared = 0
    shapes = set()
    for idx in range(total):
        ref = None
        for tag, exe, pat, repeat in builds:
            p = os.path.join(d, '%d.%s.blf' % (idx, tag))
            if not os.path.exists(p):
                continue
            data = open(p, 'rb').read()
            if ref is None:
                ref = (tag, data, p)
                try:
                    shapes.add(open(p + '.meta').read().split('\n')[1].split()[0] if idx < 118 else 'seq')
                except Exception:
                    pass
            else:
                compared += 1
                if data != ref[1]:
                    off = 0
                    while off < len(data) and off < len(ref[1]) and data[off] == ref[1][off]:
                        off += 1
                    # attribute on a level-0 rewrite when possible
                    who = attribute(exe_plain, env, idx, data, off, p + '.meta')
                    m = re.search(r'object \d+ (\w+) member (\S+)', who)
                    key = 'output-depends-on-%s:%s' % ('heap-contents' if tag.startswith('heap') else 'stack-contents', (m.group(1) + ':' + m.group(2)) if m else 'unattributed')
                    res.violation(key, 'sequence %d: %s vs %s differ at file offset %d (%s); the two runs differ in the poison pattern of the heap/stack and in the sessions that ran earlier in the process' % (idx, ref[0], tag, off, who), dict(case=idx))
        for tag, exe, pat, repeat in builds:
            for ext in ('', '.meta'):
                try:
                    os.unlink(os.path.join(d, '%d.%s.blf%s' % (idx, tag, ext)))
                except OSError:
                    pass
    res.evaluations = nfiles
    res.distinct = compared
    res.rule = ('%d sequences (one default-constructed object of every reflected class framed by populated objects incl. inactive union '
                'variants, then C01-style sequences) each written in fresh processes whose heap is pre-filled/freed with patterns 00/FF/A5/5A '
                '(allocation ledger), with -ftrivial-auto-var-init=pattern and =zero builds, and twice in one process after allocation churn; each file is '
                'written as the first session of a fresh process in one run and after different earlier sessions (batches of 5 and of 7) in the others; '
                'all files must be byte-identical; a difference is mapped through the independent decoder and the emit trace to '
                '(object, class, member). distinct_nontrivial = cross-build/pattern file comparisons performed' % total)
    res.samples = ['sequence %d written as %s' % (i, ', '.join(b[0] for b in builds)) for i in (0, 117, 118)]
    res.extra = dict(files_written=nfiles, comparisons=compared, in_process_repetitions_equal=reps, builds=[b[0] for b in builds])
    if tier == 'thorough':
        memcheck(res, d)
    if compared < total * (len(builds) - 1) and not res.violations:
        res.inconclusive.append('only %d of %d comparisons' % (compared, total * (len(builds) - 1)))
    return res.finish()


def memcheck(res, d):
    """thorough: valgrind memcheck on the plain build, level 0 (bytes flow unmodified to write(2))"""
    exe = common.hbuild('h_file', ['h_file.cpp'], 'plain', need_reflect=True)
    n = 300
    import concurrent.futures as cf

    def one(a):
        r = subprocess.run(['valgrind', '-q', '--error-exitcode=0', '--track-origins=no', exe, 'c14w', str(common.seed()), str(a), str(a + 10), d, 'vg', '100', '0'],
                           stdout=subprocess.PIPE, stderr=subprocess.PIPE, env=common.san_env(dict(VERIF_TMP=d)), timeout=1400)
        return a, r.stderr.decode(errors='replace')
    hits = 0
    with cf.ThreadPoolExecutor(common.NCPU) as ex:
        for a, err in ex.map(one, range(0, n, 10)):
            for m in re.finditer(r'(Syscall param write\(buf\) points to uninitialised byte\(s\)|Conditional jump or move depends on uninitialised value|Use of uninitialised value)', err):
                blk = err[m.start():m.start() + 1500]
                fr = [common._short(x) for x in re.findall(r'(?:at|by) 0x[0-9A-F]+: (.+?) \(', blk) if 'Vector::BLF' in x][:2]
                res.violation('memcheck:%s:%s' % (m.group(1).split()[0].lower(), '<'.join(fr) or 'no-library-frame'), 'sequences %d..%d: %s' % (a, a + 10, blk[:900]))
                hits += 1
    res.extra['memcheck_sequences'] = n
    res.extra['memcheck_reports'] = hits
