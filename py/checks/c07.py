"""C07 - results are independent of thread interleaving: same executions as C06, functional oracle."""
import common
from checks.pipe_common import run_pipe


def run(tier, replay=None):
    res = common.Result('C07', tier, 'exploration')
    configs, schedules = (384, 64) if tier == 'quick' else (6000, 256)
    st = run_pipe(res, tier, 'C07', configs, schedules)
    res.rule = ('same controlled sessions as C06; read sessions: delivered objects == the file\'s objects (unique ids, content) in file '
                'order, each once, null and eof only after the last; write sessions: file bytes identical to the uncontrolled reference '
                'run of the same configuration, accepted by the independent container parser, payload == concatenated encodings; plus a systematic leg: small sessions (1-2 objects, tiny buffers, read/early-close/write) with EVERY schedule of at most 1 (quick) / 2 (thorough) preemptions explored depth-first; '
                'distinct = distinct schedule signatures')
    res.assumptions = ['input files for read sessions are assembled by the independent writer (twin.h), not by the library']
    if not st.get('read_sessions') or not st.get('write_sessions'):
        res.inconclusive.append('coverage gate: read or write sessions missing')
    if res.distinct < 1000:
        res.inconclusive.append('coverage gate: fewer than 1000 distinct schedule signatures (%d)' % res.distinct)
    return res.finish()
