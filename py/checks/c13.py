"""C13 - every object released exactly once; clean shutdown; documented open/good/eof state after each step."""
import subprocess
import common


def run(tier, replay=None):
    res = common.Result('C13', tier, 'exploration')
    elen, nrandom = (7, 40000) if tier == 'quick' else (9, 2000000)
    d = common.scratch_dir()
    tot_h = 0
    stats = {}
    for fl, extra, srcs, leaks in (('asan', [], ['h_hist.cpp', 'vsched.cpp'], True),
                                   ('plain', ['-DWITH_ALLOC'], ['h_hist.cpp', 'vsched.cpp', 'alloc.cpp'], False)):
        exe = common.hbuild('h_hist', srcs, fl, extra=extra)
        env = common.san_env(dict(VERIF_TMP=d), leaks=leaks)
        nex = int(subprocess.check_output([exe, 'count', '1', '0', '0', str(elen), '0'], env=env).split()[0])
        total = nex + nrandom
        sh = common.Sharded(exe, lambda a, b: ['hist', common.seed(), a, b, elen, nrandom], total, env=env, tag='c13' + fl,
                            timeout=1500).run()
        common.absorb(res, sh, prop_prefix='')
        st = common.merge_stats(sh.stats)
        rh = set(st.get('random_history_hashes', []))
        stats[fl] = {k: v for k, v in st.items() if k not in ('samples', 'random_history_hashes')}
        stats[fl]['distinct_random_histories'] = len(rh)
        tot_h += st.get('histories', 0)
        res.samples += st.get('samples', [])[:3]
        if st.get('histories', 0) < total and not (sh.crashes or sh.hangs or sh.viols):
            res.inconclusive.append('%s: only %d of %d histories ran' % (fl, st.get('histories', 0), total))
        stats[fl]['exhaustive_space'] = nex
    res.evaluations = tot_h
    res.distinct = stats.get('asan', {}).get('exhaustive_histories', 0) + stats.get('asan', {}).get('distinct_random_histories', 0)
    res.rule = ('all mode-respecting call histories up to length %d over {open(missing), open(unwritable), open(in), open(out), open again, '
                'read, write, close, destroy} (every prefix ends with destruction) plus %d random histories up to length 12, on input files of '
                '0/1/9/10/11/50 objects; run twice: ASan+LSan build (double free, use after free, leaks) and plain build with the allocation '
                'ledger (exact live-bytes delta per history); 5%% of histories under the schedule controller. Oracles: ownership ledger '
                '(written objects freed exactly once by the library, read objects owned by the caller), live bytes and thread count back to '
                'baseline, is_open/good/eof vs the reference state machine, written objects present in the file; distinct = exhaustive histories + distinct (hashed) random ones'
                % (elen, nrandom))
    res.extra = stats
    return res.finish()
