"""Independent implementation of the BLF container format (stdlib struct + zlib only), written from the format
description and not from the library: 144-byte LOGG statistics header, then objects
  LOBJ | headerSize u16 | headerVersion u16 | objectSize u32 | objectType u32
type 10 (log container) = base header + method u16, 6 reserved, uncompressedSize u32, 4 reserved + payload, followed by
objectSize % 4 pad bytes.  Used as oracle (strict parse of files on disk, walk of the inflated object stream by header
fields alone) and as input builder (files assembled without the library's writer)."""
import glob
import os
import struct
import zlib

SIG = b'LOBJ'
FILESIG = b'LOGG'


class FormatError(Exception):
    pass


# --------------------------------------------------------------------------------------------- header

HDR_FMT = '<4sIIBBBBBBBBQQII8H8HQ'   # up to restorePointsOffset (offset 0x48 + 8)
FIELDS = ('signature', 'statisticsSize', 'apiNumber', 'applicationId', 'compressionLevel', 'applicationMajor',
          'applicationMinor', 'fileSize', 'uncompressedFileSize', 'objectCount', 'applicationBuild')


def parse_header(b):
    if len(b) < 144:
        raise FormatError('file shorter than statistics header (%d)' % len(b))
    h = {}
    (h['signature'], h['statisticsSize'], h['apiNumber'], h['applicationId'], h['compressionLevel'],
     h['applicationMajor'], h['applicationMinor']) = struct.unpack_from('<4sIIBBBB', b, 0)
    h['fileSize'], h['uncompressedFileSize'], h['objectCount'], h['applicationBuild'] = struct.unpack_from('<QQII', b, 16)
    h['measurementStartTime'] = struct.unpack_from('<8H', b, 40)
    h['lastObjectTime'] = struct.unpack_from('<8H', b, 56)
    h['restorePointsOffset'], = struct.unpack_from('<Q', b, 72)
    h['reserved'] = struct.unpack_from('<16I', b, 80)
    return h


def file_header(**kw):
    b = bytearray(144)
    struct.pack_into('<4sIIBBBB', b, 0, FILESIG, 144, kw.get('apiNumber', 0), kw.get('applicationId', 0),
                     kw.get('compressionLevel', 0), kw.get('applicationMajor', 0), kw.get('applicationMinor', 0))
    struct.pack_into('<QQII', b, 16, kw.get('fileSize', 0), kw.get('uncompressedFileSize', 0), kw.get('objectCount', 0),
                     kw.get('applicationBuild', 0))
    struct.pack_into('<Q', b, 72, kw.get('restorePointsOffset', 0))
    return bytes(b)


# --------------------------------------------------------------------------------------------- containers

def container(payload, method=0, level=6, usize=None, osize=None, pad=True):
    comp = payload if method == 0 else zlib.compress(payload, level)
    osz = 32 + len(comp) if osize is None else osize
    us = len(payload) if usize is None else usize
    h = SIG + struct.pack('<HHII', 16, 1, osz, 10) + struct.pack('<HHIII', method, 0, 0, us, 0)
    return h + comp + (b'\0' * ((32 + len(comp)) % 4) if pad else b'')


def wrap(stream, csize, method=0, level=6, hdr=None):
    """assemble a file from an uncompressed object stream, cutting it into containers of csize bytes"""
    out = [hdr if hdr is not None else file_header()]
    if csize <= 0:
        csize = max(1, len(stream))
    for i in range(0, len(stream), csize):
        out.append(container(stream[i:i + csize], method, level))
    return b''.join(out)


def parse_containers(b, strict_errs=None, start=144):
    """-> list of dicts(pos, osz, method, usize, comp, payload|None, complete); stops at first incomplete/invalid one"""
    pos = start
    conts = []

    def err(m):
        if strict_errs is not None:
            strict_errs.append(m)
    while pos < len(b):
        if pos + 16 > len(b):
            err('short object header at %d' % pos)
            break
        if b[pos:pos + 4] != SIG:
            err('no LOBJ signature at %d' % pos)
            break
        hs, hv, osz, ty = struct.unpack_from('<HHII', b, pos + 4)
        if ty != 10:
            err('object type %d at file level (pos %d)' % (ty, pos))
            break
        if (hs, hv) != (16, 1):
            err('container header size/version %d/%d at %d' % (hs, hv, pos))
        if pos + 32 > len(b):
            err('short container header at %d' % pos)
            break
        m, r1, r2, us, r3 = struct.unpack_from('<HHIII', b, pos + 16)
        if osz < 32:
            err('container objectSize %d < 32 at %d' % (osz, pos))
            break
        comp = b[pos + 32:pos + osz]
        c = dict(pos=pos, osz=osz, method=m, usize=us, comp=comp, payload=None, complete=len(comp) == osz - 32, hs=hs, hv=hv)
        if not c['complete']:
            err('container at %d truncated (%d of %d payload bytes)' % (pos, len(comp), osz - 32))
            conts.append(c)
            break
        if m == 0:
            c['payload'] = comp
        elif m == 2:
            try:
                d = zlib.decompressobj()
                c['payload'] = d.decompress(comp) + d.flush()
                if d.unused_data:
                    err('trailing bytes after zlib stream at %d' % pos)
                if not d.eof:
                    err('zlib stream incomplete at %d' % pos)
                    c['payload'] = None
            except zlib.error as e:
                err('zlib error at %d: %s' % (pos, e))
                c['payload'] = None
        else:
            err('compression method %d at %d' % (m, pos))
        if c['payload'] is not None and len(c['payload']) != us:
            err('container at %d inflates to %d, declares %d' % (pos, len(c['payload']), us))
        padn = osz % 4
        c['pad'] = b[pos + osz:pos + osz + padn]
        c['end'] = pos + osz + padn
        conts.append(c)
        pos += osz + padn
    return conts, pos


ZLEVEL_CLASS = {1: 0, 2: 1, 3: 1, 4: 1, 5: 1, 6: 2, 7: 3, 8: 3, 9: 3}


def strict_file(b, level, csize, trailer):
    """strict acceptance of a finished library-written file; returns (errors, stream, header, containers)"""
    errs = []
    try:
        h = parse_header(b)
    except FormatError as e:
        return [str(e)], b'', None, []
    if h['signature'] != FILESIG:
        errs.append('file signature')
    if h['statisticsSize'] != 144:
        errs.append('statisticsSize %d' % h['statisticsSize'])
    conts, end = parse_containers(b, errs)
    if end != len(b):
        errs.append('containers end at %d, file has %d bytes' % (end, len(b)))
    for c in conts:
        if not c['complete'] or c['payload'] is None:
            continue
        if c['end'] > len(b):
            errs.append('missing pad after container at %d' % c['pos'])
        elif c['pad'] != b'\0' * len(c['pad']):
            errs.append('non-zero pad after container at %d' % c['pos'])
        if level == 0:
            if c['method'] != 0:
                errs.append('method %d with level 0 at %d' % (c['method'], c['pos']))
        else:
            if c['method'] != 2:
                errs.append('method %d with level %d at %d' % (c['method'], level, c['pos']))
            elif len(c['comp']) >= 2:
                if c['comp'][0] != 0x78 or (c['comp'][0] * 256 + c['comp'][1]) % 31:
                    errs.append('bad zlib header at %d' % c['pos'])
                elif (c['comp'][1] >> 6) != ZLEVEL_CLASS.get(level, -1):
                    errs.append('zlib FLEVEL %d for level %d at %d' % (c['comp'][1] >> 6, level, c['pos']))
        if c['usize'] > csize:
            errs.append('container at %d holds %d > configured %d' % (c['pos'], c['usize'], csize))
    data = conts[:-1] if trailer and conts else conts
    for c in data[:-1]:
        if c['usize'] != csize:
            errs.append('non-last data container at %d holds %d != %d' % (c['pos'], c['usize'], csize))
    if trailer:
        if not conts:
            errs.append('restore-point trailer missing')
        else:
            if conts[-1]['usize'] != 0:
                errs.append('trailer container not empty (%d)' % conts[-1]['usize'])
            if h['restorePointsOffset'] != conts[-1]['pos']:
                errs.append('restorePointsOffset %d != %d' % (h['restorePointsOffset'], conts[-1]['pos']))
    else:
        if h['restorePointsOffset'] != 0:
            errs.append('restorePointsOffset %d without trailer' % h['restorePointsOffset'])
    stream = b''.join(c['payload'] for c in conts if c['payload'] is not None)
    return errs, stream, h, conts


# --------------------------------------------------------------------------------------------- object stream

def walk(stream):
    """walk the inflated stream by header fields alone; yields ('OBJ', pos, type, hs, hv, osz) / ('FILL', pos, bytes)"""
    p = 0
    out = []
    n = len(stream)
    while p < n:
        if stream[p:p + 4] != SIG:
            q = stream.find(SIG, p)
            if q < 0:
                out.append(('FILL', p, stream[p:]))
                break
            out.append(('FILL', p, stream[p:q]))
            p = q
            continue
        if p + 16 > n:
            out.append(('TRUNC', p, stream[p:]))
            break
        hs, hv, osz, ty = struct.unpack_from('<HHII', stream, p + 4)
        out.append(('OBJ', p, ty, hs, hv, osz))
        p += max(osz, 16)
    return out


def object_images(stream):
    """-> list of (type, image bytes incl. trailing pad/filler up to next object, objectSize)"""
    w = walk(stream)
    res = []
    for i, o in enumerate(w):
        if o[0] != 'OBJ':
            continue
        _, p, ty, hs, hv, osz = o
        end = p + osz
        if i + 1 < len(w) and w[i + 1][0] == 'FILL':
            end = w[i + 1][1] + len(w[i + 1][2])
        if p + osz > len(stream):
            continue
        res.append((ty, stream[p:end], osz))
    return res


def reference_logs():
    from common import FIX
    fs = sorted(glob.glob(os.path.join(FIX, 'events_from_binlog', '*.blf')) +
                glob.glob(os.path.join(FIX, 'events_from_converter', '*.blf')))
    return fs


def load_reference(path):
    b = open(path, 'rb').read()
    errs = []
    h = parse_header(b)
    conts, end = parse_containers(b, errs, start=h['statisticsSize'])
    stream = b''.join(c['payload'] for c in conts if c['payload'] is not None)
    return dict(path=path, header=h, conts=conts, end=end, size=len(b), errs=errs, stream=stream)


def observe_padding(refs):
    """from the reference logs: per type, is an unaligned object followed by objectSize%4 zero bytes (pad) or not"""
    pad, nopad = {}, {}
    for r in refs:
        w = walk(r['stream'])
        for i, o in enumerate(w):
            if o[0] != 'OBJ':
                continue
            _, p, ty, hs, hv, osz = o
            if osz % 4 == 0:
                continue
            nxt = w[i + 1] if i + 1 < len(w) else None
            if nxt is not None and nxt[0] == 'FILL' and len(nxt[2]) == osz % 4 and nxt[2] == b'\0' * len(nxt[2]):
                pad[ty] = pad.get(ty, 0) + 1
            elif nxt is not None and nxt[0] == 'OBJ':
                nopad[ty] = nopad.get(ty, 0) + 1
            elif nxt is None:
                tail = len(r['stream']) - (p + osz)
                if tail == osz % 4:
                    pad[ty] = pad.get(ty, 0) + 1
                elif tail == 0:
                    nopad[ty] = nopad.get(ty, 0) + 1
    return pad, nopad


# --------------------------------------------------------------------------------------------- simple object builders

def can_message(uid, channel=1):
    """CAN_MESSAGE (type 1), 48 bytes; uid is stored in the id field and mirrored in the data bytes"""
    body = struct.pack('<HBBI8s', channel, 0, 8, uid & 0xffffffff, struct.pack('<Q', uid * 0x9E3779B97F4A7C15 % (1 << 64)))
    return SIG + struct.pack('<HHII', 32, 1, 48, 1) + struct.pack('<IHHQ', 1, 0, 0, uid) + body


def app_text(uid, text):
    """APP_TEXT (type 65): ObjectHeader + source u32, reserved u32, textLength u32, reserved u32 + text + pad"""
    osz = 32 + 16 + len(text)
    return (SIG + struct.pack('<HHII', 32, 1, osz, 65) + struct.pack('<IHHQ', 1, 0, 0, uid) +
            struct.pack('<IIII', uid & 0xffffffff, 0, len(text), 0) + text + b'\0' * (osz % 4))


def unknown_object(ty, size, body=None, fill=0xEE, hs=16, hv=1):
    n = max(size, 16) - 16
    if body is None:
        body = bytes([fill]) * n
    return SIG + struct.pack('<HHII', hs, hv, size, ty) + body[:n].ljust(n, bytes([fill]))
