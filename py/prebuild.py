"""Pre-build every harness used by the quick checks (called by bin/setup); checks rebuild on their own when /repo changes."""
import concurrent.futures as cf
import common

JOBS = [
    ('h_codec', ['h_codec.cpp'], 'asan', (), True),
    ('h_model', ['h_model.cpp'], 'asan', (), False),
    ('h_pipe', ['h_pipe.cpp', 'vsched.cpp'], 'asan', (), False),
    ('h_queue', ['h_queue.cpp', 'vsched.cpp'], 'asan', (), False),
    ('h_mem', ['h_mem.cpp', 'vsched.cpp', 'alloc.cpp'], 'plain', (), False),
    ('h_hist', ['h_hist.cpp', 'vsched.cpp'], 'asan', (), False),
    ('h_hist', ['h_hist.cpp', 'vsched.cpp', 'alloc.cpp'], 'plain', ('-DWITH_ALLOC',), False),
    ('h_file', ['h_file.cpp'], 'asan', (), True),
    ('h_file', ['h_file.cpp', 'alloc.cpp'], 'plain', ('-DWITH_ALLOC',), True),
    ('h_file', ['h_file.cpp', 'alloc.cpp'], 'patt', ('-DWITH_ALLOC',), True),
    ('h_file', ['h_file.cpp', 'alloc.cpp'], 'zero', ('-DWITH_ALLOC',), True),
    ('h_tsan', ['h_tsan.cpp'], 'tsan', (), False),
]


def all():
    common.reflect_header()
    for fl in sorted(set(j[2] for j in JOBS)):
        common.vbuild(fl)
    with cf.ThreadPoolExecutor(6) as ex:
        list(ex.map(lambda j: common.hbuild(j[0], j[1], j[2], extra=list(j[3]), need_reflect=j[4]), JOBS))
