"""Shared infrastructure for all checks: paths, builds from /repo's working tree (content-hash
cache), worker supervision, violation keys, known-findings matching, evidence writing."""
import fcntl
import glob
import hashlib
import json
import os
import re
import shutil
import subprocess
import sys
import time

VERIF = os.path.dirname(os.path.dirname(os.path.abspath(__file__)))
REPO = os.environ.get('VERIF_REPO', '/repo')
SRC = os.path.join(REPO, 'src')
BLF = os.path.join(SRC, 'Vector', 'BLF')
FIX = os.path.join(BLF, 'tests', 'unittests')
CACHE = os.environ.get('VERIF_CACHE', os.path.join(VERIF, '.cache'))
HARNESS = os.path.join(VERIF, 'harness')
OUT = os.environ.get('VERIF_OUT', VERIF)      # where evidence/ and replays/ go (overridden when trying patches on a scratch tree)
GUARD = 'VECTOR_BLF_VERIF'
NCPU = int(os.environ.get('VERIF_JOBS', '16'))
COV = os.environ.get('VERIF_COV')            # reach audit (bin/reach): library built with --coverage into this directory

EXIT_OK, EXIT_VIOLATION, EXIT_INCONCLUSIVE = 0, 1, 2


class Inconclusive(Exception):
    """harness failure / coverage gate not met: exit 2, never a verdict."""


def seed():
    try:
        return int(os.environ.get('VERIF_SEED', '1'))
    except ValueError:
        return 1


def sha(*parts):
    h = hashlib.sha256()
    for p in parts:
        if isinstance(p, str):
            p = p.encode()
        h.update(p)
        h.update(b'\0')
    return h.hexdigest()


def file_hash(paths):
    h = hashlib.sha256()
    for p in sorted(paths):
        h.update(p.encode())
        with open(p, 'rb') as f:
            h.update(f.read())
    return h.hexdigest()


# ----------------------------------------------------------------------------- builds

_COMMON = ['-std=c++11', '-D' + GUARD, '-pthread']
FLAVOURS = {
    'asan': dict(cxx='g++', flags=['-O1', '-g', '-fno-omit-frame-pointer', '-fsanitize=address,undefined',
                                   '-fno-sanitize-recover=all', '-D_GLIBCXX_ASSERTIONS',
                                   '-D_GLIBCXX_SANITIZE_VECTOR']),
    'tsan': dict(cxx='g++', flags=['-O1', '-g', '-fno-omit-frame-pointer', '-fsanitize=thread']),
    'plain': dict(cxx='g++', flags=['-O1', '-g', '-fno-omit-frame-pointer']),
    'patt': dict(cxx='g++', flags=['-O1', '-g', '-fno-omit-frame-pointer', '-ftrivial-auto-var-init=pattern']),
    'zero': dict(cxx='g++', flags=['-O1', '-g', '-fno-omit-frame-pointer', '-ftrivial-auto-var-init=zero']),
    'fuzz': dict(cxx='clang++-14', flags=['-O1', '-g', '-fno-omit-frame-pointer',
                                          '-fsanitize=fuzzer-no-link,address,undefined',
                                          '-fno-sanitize=object-size', '-fno-sanitize-recover=all']),
}


def repo_sources():
    return sorted(glob.glob(os.path.join(BLF, '*.cpp')))


def repo_headers():
    return sorted(glob.glob(os.path.join(BLF, '*.h')) + glob.glob(os.path.join(SRC, 'Vector', '*.h')) +
                  glob.glob(os.path.join(BLF, '*.h.in')))


def tree_hash():
    return file_hash(repo_sources() + repo_headers())


class _Lock:
    def __init__(self, path):
        self.path = path

    def __enter__(self):
        os.makedirs(os.path.dirname(self.path), exist_ok=True)
        self.f = open(self.path, 'w')
        fcntl.flock(self.f, fcntl.LOCK_EX)

    def __exit__(self, *a):
        fcntl.flock(self.f, fcntl.LOCK_UN)
        self.f.close()


def _prune(prefix, keep):
    for d in glob.glob(os.path.join(CACHE, prefix + '-*')):
        if d != keep and not d.endswith('.lock'):
            try:
                if time.time() - os.path.getmtime(d) > 600:
                    shutil.rmtree(d, ignore_errors=True)
            except OSError:
                pass


def gen_dir():
    """generated headers needed to compile the library outside CMake"""
    d = os.path.join(CACHE, 'gen')
    os.makedirs(os.path.join(d, 'Vector', 'BLF'), exist_ok=True)
    cfg = os.path.join(d, 'Vector', 'BLF', 'config.h')
    src = open(os.path.join(BLF, 'config.h.in')).read()
    src = re.sub(r'@[A-Za-z_]+@', '0', src)
    src = re.sub(r'#cmakedefine\s+(\w+).*', r'/* #undef \1 */', src)
    exp = os.path.join(d, 'Vector', 'BLF', 'vector_blf_export.h')
    for path, content in ((cfg, src), (exp, '#pragma once\n#define VECTOR_BLF_EXPORT\n#define VECTOR_BLF_NO_EXPORT\n'
                                            '#define VECTOR_BLF_DEPRECATED\n')):
        if not os.path.exists(path) or open(path).read() != content:
            with open(path + '.tmp%d' % os.getpid(), 'w') as f:
                f.write(content)
            os.replace(path + '.tmp%d' % os.getpid(), path)
    return d


def vbuild(flavour, log=True):
    """Compile /repo's current working tree for one flavour; returns dir containing libblf.a"""
    fl = FLAVOURS[flavour]
    flags = _COMMON + fl['flags']
    if COV and flavour != 'fuzz':
        flags = flags + ['--coverage', '-fprofile-update=atomic']
    g = gen_dir()
    key = sha(tree_hash(), fl['cxx'], ' '.join(flags))[:16]
    out = os.path.join(CACHE, 'lib-%s-%s' % (flavour, key))
    if COV and flavour != 'fuzz':
        out = os.path.join(COV, 'lib-%s-%s' % (flavour, key))     # .gcno stay here, .gcda are written next to them at run time
    with _Lock(os.path.join(CACHE, 'lib-%s.lock' % flavour)):
        if os.path.exists(os.path.join(out, 'libblf.a')):
            os.utime(out)
            return out
        t0 = time.time()
        tmp = out if (COV and flavour != 'fuzz') else out + '.tmp'
        shutil.rmtree(tmp, ignore_errors=True)
        os.makedirs(tmp)
        srcs = repo_sources()
        procs = []
        errs = []

        def reap(block):
            for p, s in list(procs):
                if block or p.poll() is not None:
                    o, _ = p.communicate()
                    if p.returncode != 0:
                        errs.append((s, o.decode(errors='replace')))
                    procs.remove((p, s))
                    if block:
                        return
        for s in srcs:
            while len(procs) >= NCPU:
                reap(False)
                if len(procs) >= NCPU:
                    time.sleep(0.01)
            o = os.path.join(tmp, os.path.basename(s)[:-4] + '.o')
            procs.append((subprocess.Popen([fl['cxx']] + flags + ['-w', '-c', '-I' + SRC, '-I' + g, s, '-o', o],
                                           stdout=subprocess.PIPE, stderr=subprocess.STDOUT), s))
        while procs:
            reap(True)
        if errs:
            shutil.rmtree(tmp, ignore_errors=True)
            raise Inconclusive('library build failed (%s): %s\n%s' % (flavour, errs[0][0], errs[0][1][-3000:]))
        objs = sorted(glob.glob(os.path.join(tmp, '*.o')))
        subprocess.check_call(['ar', 'rcs', os.path.join(tmp, 'libblf.a')] + objs)
        for o in objs:
            os.unlink(o)
        if tmp != out:
            shutil.rmtree(out, ignore_errors=True)
            os.rename(tmp, out)
            _prune('lib-' + flavour, out)
        if log:
            sys.stderr.write('[vbuild] %s built in %.1fs -> %s\n' % (flavour, time.time() - t0, out))
    return out


def reflect_header():
    """generated reflection over the current headers (clang JSON AST)"""
    gen = os.path.join(VERIF, 'gen', 'gen_reflect.py')
    key = sha(file_hash(repo_headers()), file_hash([gen]))[:16]
    out = os.path.join(CACHE, 'reflect-%s' % key)
    with _Lock(os.path.join(CACHE, 'reflect.lock')):
        hdr = os.path.join(out, 'reflect_gen.h')
        if os.path.exists(hdr):
            os.utime(out)
            return out
        tmp = out + '.tmp'
        shutil.rmtree(tmp, ignore_errors=True)
        os.makedirs(tmp)
        ast = os.path.join(tmp, 'ast.json')
        tu = os.path.join(tmp, 'tu.cpp')
        with open(tu, 'w') as f:
            f.write('#include <Vector/BLF.h>\n')
        with open(ast, 'w') as f:
            r = subprocess.run(['clang++-14', '-std=c++11', '-fsyntax-only', '-w', '-D' + GUARD, '-I' + SRC, '-I' + gen_dir(),
                                '-Xclang', '-ast-dump=json', '-Xclang', '-ast-dump-filter=Vector::BLF::', tu],
                               stdout=f, stderr=subprocess.PIPE)
        if r.returncode != 0:
            raise Inconclusive('AST dump failed: ' + r.stderr.decode()[-2000:])
        r = subprocess.run([sys.executable, gen, ast, os.path.join(tmp, 'reflect_gen.h'), os.path.join(tmp, 'reflect.json')],
                           stdout=subprocess.PIPE, stderr=subprocess.STDOUT)
        if r.returncode != 0:
            raise Inconclusive('reflection generator failed: ' + r.stdout.decode()[-3000:])
        os.unlink(ast)
        shutil.rmtree(out, ignore_errors=True)
        os.rename(tmp, out)
        _prune('reflect', out)
    return out


BUILDS = {}     # exe path -> descriptor, so that a replay can rebuild the same harness from the current tree


def hbuild(name, sources, flavour, extra=(), libs=('-lz',), need_reflect=False, link_blf=True):
    """build a harness executable against the flavour's library; cached by content hash"""
    exe = _hbuild(name, sources, flavour, extra, libs, need_reflect, link_blf)
    BUILDS[exe] = dict(name=name, sources=list(sources), flavour=flavour, extra=list(extra), libs=list(libs), need_reflect=need_reflect)
    return exe


def _hbuild(name, sources, flavour, extra=(), libs=('-lz',), need_reflect=False, link_blf=True):
    fl = FLAVOURS[flavour]
    lib = vbuild(flavour) if link_blf else ''
    refl = reflect_header() if need_reflect else ''
    srcs = [s if os.path.isabs(s) else os.path.join(HARNESS, s) for s in sources]
    hdrs = sorted(glob.glob(os.path.join(HARNESS, '*.h')))
    flags = _COMMON + fl['flags'] + list(extra)
    cov = bool(COV) and flavour != 'fuzz'
    if cov:
        flags = flags + ['-DVERIF_COV_BUILD']
    if flavour == 'fuzz':
        flags = [f.replace('fuzzer-no-link', 'fuzzer') for f in flags]
    key = sha(lib, refl, file_hash(srcs + hdrs), ' '.join(flags), ' '.join(libs))[:16]
    out = os.path.join(CACHE, 'bin-%s-%s-%s' % (name, flavour, key))
    exe = os.path.join(out, name)
    with _Lock(os.path.join(CACHE, 'bin-%s-%s.lock' % (name, flavour))):
        if os.path.exists(exe):
            os.utime(out)
            return exe
        t0 = time.time()
        tmp = out + '.tmp'
        shutil.rmtree(tmp, ignore_errors=True)
        os.makedirs(tmp)
        inc = ['-I' + SRC, '-I' + gen_dir(), '-I' + HARNESS]
        if refl:
            inc.append('-I' + refl)
        objs = []
        procs = []
        for s in srcs:
            o = os.path.join(tmp, os.path.basename(s) + '.o')
            objs.append(o)
            procs.append((s, subprocess.Popen([fl['cxx']] + flags + ['-w', '-c'] + inc + [s, '-o', o],
                                              stdout=subprocess.PIPE, stderr=subprocess.STDOUT)))
        for s, p in procs:
            o, _ = p.communicate()
            if p.returncode != 0:
                shutil.rmtree(tmp, ignore_errors=True)
                raise Inconclusive('harness build failed (%s %s): %s' % (name, flavour, o.decode(errors='replace')[-4000:]))
        cmd = [fl['cxx']] + flags + objs + ([os.path.join(lib, 'libblf.a')] if link_blf else []) + list(libs) + \
              ['-rdynamic', '-ldl', '-o', os.path.join(tmp, name)] + (['--coverage'] if cov else [])
        r = subprocess.run(cmd, stdout=subprocess.PIPE, stderr=subprocess.STDOUT)
        if r.returncode != 0:
            shutil.rmtree(tmp, ignore_errors=True)
            raise Inconclusive('harness link failed (%s %s): %s' % (name, flavour, r.stdout.decode(errors='replace')[-4000:]))
        for o in objs:
            os.unlink(o)
        shutil.rmtree(out, ignore_errors=True)
        os.rename(tmp, out)
        _prune('bin-%s-%s' % (name, flavour), out)
        sys.stderr.write('[hbuild] %s/%s built in %.1fs\n' % (name, flavour, time.time() - t0))
    return exe


# ----------------------------------------------------------------------------- environment for runs

def san_env(extra=None, leaks=True):
    e = dict(os.environ)
    e['ASAN_OPTIONS'] = ('abort_on_error=0:exitcode=99:detect_leaks=%d:allocator_may_return_null=0:'
                         'detect_stack_use_after_return=0:handle_abort=1:malloc_context_size=12:'
                         'max_allocation_size_mb=1024' % (1 if leaks else 0))
    e['UBSAN_OPTIONS'] = 'print_stacktrace=1:halt_on_error=1:exitcode=98'
    e['LSAN_OPTIONS'] = 'exitcode=97'
    e['TSAN_OPTIONS'] = 'halt_on_error=0:exitcode=0:second_deadlock_stack=1'
    if extra:
        e.update(extra)
    return e


def scratch(tag):
    base = '/dev/shm' if os.path.isdir('/dev/shm') else CACHE
    d = os.path.join(base, 'verif.%s.%d' % (tag, os.getpid()))
    shutil.rmtree(d, ignore_errors=True)
    os.makedirs(d)
    return d


# ----------------------------------------------------------------------------- sanitizer report keys

_FRAME = re.compile(r'^\s*#\d+\s+0x[0-9a-f]+\s+in\s+(.+?)\s+(\S+?)(?::\d+)*(?:\s|$)')


def _short(fn):
    fn = re.sub(r'\(.*$', '', fn)
    fn = fn.replace('Vector::BLF::', '')
    fn = re.sub(r'<.*>', '', fn)
    return fn.strip()


def sanitizer_key(text):
    """derive a stable key from an ASan/UBSan/terminate report: kind + first library frames (no line numbers)"""
    kind = None
    m = re.search(r'ERROR: AddressSanitizer: ([\w-]+)', text)
    if m:
        kind = 'asan:' + m.group(1)
        if m.group(1) in ('requested', 'allocation-size-too-big', 'out-of-memory', 'calloc-overflow'):
            kind = 'asan:alloc-too-big'
        if 'requested allocation size' in text:
            kind = 'asan:alloc-too-big'
    if not kind:
        m = re.search(r'runtime error: (.+)', text)
        if m:
            msg = re.sub(r'0x[0-9a-f]+', 'ADDR', m.group(1))
            msg = re.sub(r'-?\d+', 'N', msg)
            kind = 'ubsan:' + msg[:70]
    if not kind:
        m = re.search(r'ERROR: LeakSanitizer', text)
        if m:
            kind = 'lsan:leak'
    if not kind:
        m = re.search(r"terminate called after throwing an instance of '([^']+)'", text)
        if m:
            kind = 'terminate:' + m.group(1)
        elif 'terminate called' in text:
            kind = 'terminate'
    if not kind:
        m = re.search(r'Assertion [`\'](.+?)\' failed', text)
        if m:
            kind = 'glibcxx-assert:' + m.group(1)[:60]
    if not kind:
        return None
    frames = []
    for line in text.splitlines():
        m = _FRAME.match(line)
        if not m:
            if frames and line.strip() == '':
                break
            continue
        fn, path = m.group(1), m.group(2)
        if '/Vector/BLF/' in path and '/harness/' not in path:
            s = _short(fn)
            if s and (not frames or frames[-1] != s):
                frames.append(s)
        if len(frames) >= 3:
            break
    return kind + ':' + '<'.join(frames) if frames else kind


# ----------------------------------------------------------------------------- known findings

class Known:
    """known-findings.txt: lines 'finding: property=<id> key=<key> :: <what fails>' and 'fixed: property=<id> <commit> <what>'.
    Only 'finding:' lines suppress, and only for an exactly matching key (fnmatch-free: exact or explicit prefix with '*')."""

    def __init__(self, path=None):
        self.items = []
        path = path or os.path.join(VERIF, 'known-findings.txt')
        if os.path.exists(path):
            for line in open(path):
                line = line.strip()
                if not line.startswith('finding:'):
                    continue
                m = re.match(r'finding:\s+property=(\S+)\s+key=(\S+)\s+::\s*(.*)', line)
                if m:
                    self.items.append((m.group(1), m.group(2), m.group(3)))

    def match(self, prop, key):
        for p, k, what in self.items:
            if p != prop:
                continue
            if k == key or (k.endswith('*') and key.startswith(k[:-1])):
                return what
        return None


# ----------------------------------------------------------------------------- result / evidence

class Result:
    def __init__(self, prop, tier, level):
        self.prop, self.tier, self.level = prop, tier, level
        self.t0 = time.time()
        self.violations = {}      # key -> dict(detail, replay)
        self.evaluations = 0
        self.distinct = set()
        self.samples = []
        self.rule = ''
        self.extra = {}
        self.assumptions = []
        self.exhaustive = None
        self.inconclusive = []
        self.replay_dir = os.path.join(OUT, 'replays', prop)

    def violation(self, key, detail, replay_blob=None):
        key = re.sub(r'\s+', '_', key)
        if key in self.violations:
            self.violations[key]['count'] += 1
            return
        os.makedirs(self.replay_dir, exist_ok=True)
        path = os.path.join(self.replay_dir, re.sub(r'[^A-Za-z0-9_.:-]', '_', key)[:150] + '.json')
        try:
            with open(path, 'w') as f:
                json.dump(dict(property=self.prop, key=key, seed=seed(), detail=detail, replay=replay_blob), f, indent=1,
                          default=str)
        except OSError:
            pass
        self.violations[key] = dict(detail=detail, replay=path, count=1)

    def sample(self, s, limit=8):
        if len(self.samples) < limit:
            self.samples.append(s)

    def finish(self):
        known = Known()
        new, kn = [], []
        for key, v in sorted(self.violations.items()):
            what = known.match(self.prop, key)
            if what is not None:
                kn.append((key, what))
                print('KNOWN-FINDING: property=%s key=%s %s' % (self.prop, key, what))
            else:
                new.append((key, v))
        for key, v in new:
            d = v['detail']
            if not isinstance(d, str):
                d = json.dumps(d, default=str)
            print('VIOLATION property=%s replay=%s' % (self.prop, v['replay']))
            print('  key=%s (x%d) %s' % (key, v['count'], d[:1500]))
        cov = dict(evaluations=int(self.evaluations), distinct_nontrivial=len(self.distinct) if isinstance(self.distinct, set)
                   else int(self.distinct), rule=self.rule, samples=self.samples or ['(none)'])
        if self.exhaustive is not None:
            cov['exhaustive'] = bool(self.exhaustive)
        cov.update(self.extra)
        cov['known_findings_matched'] = [k for k, _ in kn]
        cov['violation_keys'] = [k for k, _ in new]
        ev = dict(property_id=self.prop, tier=self.tier, seed=seed(), level=self.level, coverage=cov,
                  assumptions=self.assumptions, wall_s=round(time.time() - self.t0, 2), violations=len(new))
        if self.inconclusive:
            ev['coverage']['inconclusive'] = self.inconclusive[:20]
        os.makedirs(os.path.join(OUT, 'evidence'), exist_ok=True)
        p = os.path.join(OUT, 'evidence', self.prop + '.json')
        with open(p + '.tmp', 'w') as f:
            json.dump(ev, f, indent=1, default=str)
        os.replace(p + '.tmp', p)
        print('[%s %s seed=%d] evaluations=%d distinct=%d violations=%d known=%d wall=%.1fs' % (
            self.prop, self.tier, seed(), cov['evaluations'], cov['distinct_nontrivial'], len(new), len(kn), ev['wall_s']))
        if new:
            return EXIT_VIOLATION
        if self.inconclusive:
            for m in self.inconclusive[:10]:
                print('INCONCLUSIVE: ' + str(m)[:500])
            return EXIT_INCONCLUSIVE
        return EXIT_OK


# ----------------------------------------------------------------------------- worker supervision

_scratch = None


def scratch_dir():
    global _scratch
    if _scratch is None:
        _scratch = scratch('run')
        import atexit
        atexit.register(lambda: shutil.rmtree(_scratch, ignore_errors=True))
    return _scratch


class Sharded:
    """Run cases [0,total) of a harness over NCPU worker processes. Worker argv = argv_fn(a, b) and it must print
    '@case <i>' before running case i (a <= i < b). On abnormal exit at case c the report is captured and keyed and the
    worker is restarted at c+1 (bounded), so one defect does not mask the rest. A worker that exceeds the per-chunk
    timeout, or exits with the watchdog code 77, is a 'hang' at its last announced case: the case is re-run once in
    isolation; only a reproduced hang is reported as a violation, otherwise it is inconclusive."""

    def __init__(self, exe, argv_fn, total, env=None, chunk=None, timeout=900, case_timeout=90, max_restarts=40, tag='w',
                 single_fn=None):
        self.exe, self.argv_fn, self.total = exe, argv_fn, total
        self.env = env or san_env()
        self.chunk = chunk or max(1, (total + NCPU * 4 - 1) // (NCPU * 4))
        wds = max(1, int(os.environ.get('VERIF_WD_SCALE', '1')))       # bin/reach only: the gcov-instrumented build is much slower
        self.timeout, self.case_timeout, self.max_restarts, self.tag = timeout * wds, case_timeout * wds, max_restarts, tag
        self.viols = []     # (key, text, case)
        self.stats = []
        self.crashes = []   # (case, key, report)
        self.hangs = []     # (case, reproduced, text)
        self.confirmed = []
        self.stopped_early = False
        self.problems = []  # harness failures (exit 2 etc.)
        self.cases = 0
        self.keep_prefix = None
        self.kept = []
        self.single_fn = single_fn or (lambda c: argv_fn(c, c + 1))

    def _spawn(self, a, b, idx):
        of = open(os.path.join(scratch_dir(), 'out.%s.%d' % (self.tag, idx)), 'w+b')
        ef = open(os.path.join(scratch_dir(), 'err.%s.%d' % (self.tag, idx)), 'w+b')
        p = subprocess.Popen([self.exe] + [str(x) for x in self.argv_fn(a, b)], stdout=of, stderr=ef, env=self.env,
                             stdin=subprocess.DEVNULL)
        return dict(p=p, of=of, ef=ef, a=a, b=b, t0=time.time(), idx=idx)

    def _collect(self, w, killed):
        w['of'].seek(0)
        w['ef'].seek(0)
        out = w['of'].read().decode(errors='replace')
        err = w['ef'].read().decode(errors='replace')
        w['of'].close()
        w['ef'].close()
        last = None
        n = 0
        for line in out.splitlines():
            if line.startswith('@case '):
                last = line[6:].strip()
                n += 1
            elif line.startswith('@viol '):
                k, _, t = line[6:].partition(' :: ')
                self.viols.append((k.strip(), t, last))
            elif self.keep_prefix and line.startswith(self.keep_prefix):
                self.kept.append(line)
            elif line.startswith('@stat '):
                try:
                    self.stats.append(json.loads(line[6:]))
                except ValueError:
                    self.problems.append('bad @stat line: ' + line[:200])
        self.cases += n
        return out, err, last

    def run(self):
        queue = [(a, min(a + self.chunk, self.total)) for a in range(0, self.total, self.chunk)]
        running = []
        idx = 0
        restarts = 0
        while queue or running:
            while queue and len(running) < NCPU:
                a, b = queue.pop(0)
                running.append(self._spawn(a, b, idx))
                idx += 1
            time.sleep(0.01)
            for w in list(running):
                rc = w['p'].poll()
                killed = False
                if rc is None and time.time() - w['t0'] > self.timeout:
                    w['p'].kill()
                    w['p'].wait()
                    rc = w['p'].returncode
                    killed = True
                if rc is None:
                    continue
                running.remove(w)
                out, err, last = self._collect(w, killed)
                if rc == 0 and not killed:
                    continue
                try:
                    c = int(last) if last is not None else w['a']
                except ValueError:
                    c = w['a']
                if killed or rc == 77:
                    conf = self._confirm(c)
                    self.confirmed.append(conf)
                    if conf[1]:
                        # a reproduced hang is a violation for certain: stop exploring instead of paying the watchdog again and again
                        for w2 in running:
                            w2['p'].kill()
                            w2['p'].wait()
                            self._collect(w2, True)
                        running = []
                        queue = []
                        self.stopped_early = True
                        break
                elif rc == 42:
                    pass    # the schedule controller reported a violation (@viol line already collected) and ended the process
                elif rc == 2:
                    self.problems.append('worker exit 2 at case %s: %s' % (last, (err or out)[-600:]))
                    continue
                else:
                    key = sanitizer_key(err) or sanitizer_key(out)
                    if key is None:
                        sig = -rc if rc < 0 else rc
                        key = 'exit:%d' % sig
                        fr = []
                        for line in err.splitlines():
                            m = _FRAME.match(line)
                            if m and '/Vector/BLF/' in m.group(2):
                                fr.append(_short(m.group(1)))
                        if fr:
                            key += ':' + '<'.join(fr[:3])
                    self.crashes.append((c, key, err[-6000:]))
                if c + 1 < w['b'] and restarts < self.max_restarts:
                    restarts += 1
                    queue.insert(0, (c + 1, w['b']))
                elif c + 1 < w['b']:
                    self.problems.append('restart budget exhausted; cases %d..%d not run' % (c + 1, w['b']))
        self.hangs = self.confirmed
        return self

    def _confirm(self, c):
        # a hang that depends on native timing may not show on every run: up to three isolated runs, the first reproduction counts
        rep, text = False, ''
        for attempt in range(3):
            try:
                r = subprocess.run([self.exe] + [str(x) for x in self.single_fn(c)], stdout=subprocess.PIPE,
                                   stderr=subprocess.PIPE, env=self.env, timeout=self.case_timeout, stdin=subprocess.DEVNULL)
                rep = r.returncode == 77
                text = r.stderr.decode(errors='replace')[-3000:] + r.stdout.decode(errors='replace')[-1000:]
            except subprocess.TimeoutExpired as e:
                rep = True
                text = ((e.stderr or b'').decode(errors='replace')[-3000:])
            if rep:
                break
        return (c, rep, text)


def merge_stats(stats):
    tot = {}
    for s in stats:
        for k, v in s.items():
            if isinstance(v, bool):
                tot[k] = tot.get(k, False) or v
            elif isinstance(v, (int, float)):
                if k.startswith('max_'):
                    tot[k] = max(tot.get(k, v), v)
                elif k.startswith('min_'):
                    tot[k] = min(tot.get(k, v), v)
                else:
                    tot[k] = tot.get(k, 0) + v
            elif isinstance(v, list):
                tot.setdefault(k, [])
                for x in v:
                    if len(tot[k]) < 2000000:
                        tot[k].append(x)
            elif isinstance(v, dict):
                d = tot.setdefault(k, {})
                for kk, vv in v.items():
                    if isinstance(vv, (int, float)) and not isinstance(vv, bool):
                        d[kk] = d.get(kk, 0) + vv
                    else:
                        d[kk] = vv
            else:
                tot[k] = v
    return tot


def absorb(res, sh, prop_prefix=''):
    """fold a Sharded run into a Result: monitor violations, crashes (keyed sanitizer reports), hangs, problems"""
    def blob(case):
        b = dict(case=case)
        try:
            c = int(case)
            b['harness'] = BUILDS.get(sh.exe)
            b['argv'] = [str(x) for x in sh.single_fn(c)]
            b['env'] = {k: v for k, v in sh.env.items() if k.startswith('VERIF_') and k not in ('VERIF_TMP',)}
        except (TypeError, ValueError):
            pass
        return b
    for key, text, case in sh.viols:
        res.violation(prop_prefix + key, text, blob(case))
    for case, key, rep in sh.crashes:
        i = max(rep.find('ERROR:'), rep.find('runtime error'), 0)
        res.violation(prop_prefix + key, rep[i:i + 2500], blob(case))
    for case, reproduced, text in sh.hangs:
        if reproduced:
            res.violation(prop_prefix + 'hang:' + hang_site(text), 'case %s hangs (reproduced in isolation): %s' % (case, text[-1500:]),
                          blob(case))
        else:
            res.inconclusive.append('watchdog fired at case %s but did not reproduce' % case)
    for p in sh.problems:
        res.inconclusive.append(p)


def hang_site(text):
    m = re.search(r'@hangsite (\S+)', text)
    return m.group(1) if m else 'unknown'


def replay(path):
    """re-run the single case recorded in a replay file against the current tree (harness rebuilt from /repo's working tree)"""
    r = json.load(open(path))
    b = r.get('replay') or {}
    h = b.get('harness')
    if not h or not b.get('argv'):
        return None
    exe = hbuild(h['name'], h['sources'], h['flavour'], extra=h.get('extra', ()), libs=tuple(h.get('libs', ('-lz',))), need_reflect=h.get('need_reflect', False))
    env = san_env(dict(VERIF_TMP=scratch_dir()))
    env.update(b.get('env', {}))
    if any(a.startswith('/dev/shm/verif.') or a.startswith('/tmp/') for a in b['argv']):
        return None     # the case depends on generated input files of the original run
    print('replaying %s: %s %s' % (r.get('key'), h['name'], ' '.join(b['argv'])))
    try:
        p = subprocess.run([exe] + b['argv'], stdout=subprocess.PIPE, stderr=subprocess.PIPE, env=env, timeout=300)
        out, err, rc = p.stdout.decode(errors='replace'), p.stderr.decode(errors='replace'), p.returncode
    except subprocess.TimeoutExpired:
        out, err, rc = '', 'timeout', 77
    bad = rc not in (0,) or '@viol ' in out
    for line in out.splitlines():
        if line.startswith('@viol '):
            print(line[:1500])
    if rc != 0:
        print('exit code %d\n%s' % (rc, err[-3000:]))
    if bad:
        print('VIOLATION property=%s replay=%s' % (r.get('property'), path))
        return EXIT_VIOLATION
    print('case passes on the current tree')
    return EXIT_OK
