// Codec-level monitors on a tracing in-memory stream (no threads):
//   c03 <seed> <from> <to> <states_per_class>   framing monitor, case = class index
//   c17 <seed> 0 1                               type codes / factory / determined fields
// env VERIF_PADSET / VERIF_NOPADSET: comma separated type codes observed (by the independent decoder) to pad / not pad.
#include <Vector/BLF.h>
#include <set>
#include <thread>
#include <typeinfo>
#include "hcommon.h"
#include "memfile.h"
#include "objlib.h"
#include "spec_types.h"
#include "watchdog.h"

using namespace Vector::BLF;
using ol::Obj;

static std::set<unsigned> parse_set(const char * env) {
    std::set<unsigned> s; const char * v = getenv(env); if (!v) return s;
    while (*v) { char * e; unsigned long x = strtoul(v, &e, 10); if (e == v) break; s.insert((unsigned)x); v = *e ? e + 1 : e; }
    return s;
}

static unsigned header_bytes(const char * kind) {
    if (!strcmp(kind, "ObjectHeader")) return 32;
    if (!strcmp(kind, "ObjectHeader2")) return 40;
    if (!strcmp(kind, "VarObjectHeader")) return 32;
    return 16;
}

static bool is_header_owner(const std::string & o) {
    return o == "ObjectHeaderBase" || o == "ObjectHeader" || o == "ObjectHeader2" || o == "VarObjectHeader";
}

static std::string variant_tag(const Obj & ob) {
    std::string cls = ob.ci->name, t;
    if (cls == "LinMessage2" || cls == "EthernetStatus") t = "api" + std::to_string(ob.u("apiMajor"));
    else if (cls == "LinMessage") t = "present" + std::to_string(ob.u("reservedLinMessage2_present"));
    else if (cls == "LinSendError2") t = "present" + std::to_string(ob.u("reservedLinSendError3_present"));
    else if (cls == "SerialEvent") { uint32_t f = (uint32_t)ob.u("flags"); t = (f & 4) ? "single" : (f & 8) ? "compact" : "general"; }
    else if (cls == "CanErrorFrame") t = ob.u("length") > 0 ? "len>0" : "len0";
    return t;
}

struct C03Stats { long states = 0, decoded = 0, stale = 0, reused = 0; std::set<std::string> shapes; std::set<int> residues[4]; };

static void c03_state(const vr::ClassInfo * ci, Rng & r, const std::set<unsigned> & padset, const std::set<unsigned> & nopadset,
                      C03Stats & st, int fixed_len, std::string & sample) {
    ObjectHeaderBase * o = ci->make();
    Obj ob(ci, o);
    ol::GenOpts g;
    g.stale_lengths = r.chance(1, 3);
    g.fixed_len = fixed_len;
    g.populate_inactive = r.chance(1, 2);   // members of inactive variants may hold anything: they must not influence the framing
    bool dflt = (fixed_len < 0) && r.chance(1, 25);   // default-constructed object
    if (!dflt) ol::randomise(ob, r, g);
    bool reuse = !dflt && r.chance(1, 6);
    MemFile mf;
    if (reuse) {   // object written once, containers changed, written again (length fields now stale from the first write)
        if (const vr::Field * xo = ob.find("extDataOffset")) xo->set_u64(0);     // the ext-data offset of a CAN FD 64 object would be stale after resizing: caller resets it
        MemFile first; o->write(first);
        ol::GenOpts g2; g2.fixed_len = -1;
        for (auto & f : ob.f) if (f.variable() && ol::role(ob, f) != ol::R_NONSER && ol::active(ob, f)) {
                size_t n = ol::pick_len(r, g2, ol::max_elems(ob, f)); f.resize(n);
                for (size_t i = 0; i < f.nbytes(); i++) f.wdata()[i] = (uint8_t)r.next();
            }
        st.reused++;
    }
    if (g.stale_lengths) st.stale++;
    std::string vt = variant_tag(ob);
    std::string keyp = std::string(ci->name) + ":";
    std::string ks = vt.empty() ? "" : ":" + vt;
    unsigned expect_type = (unsigned)o->objectType;
    ObjectHeaderBase * orig = ci->clone(o);      // what the caller expressed
    Obj oo(ci, orig);
    mf.trace = true;
    o->write(mf);
    st.states++;
    st.shapes.insert(ol::shape(ob));
    if (sample.empty() || r.chance(1, 50)) sample = ol::describe(oo, 300);
    const std::vector<uint8_t> & b = mf.buf;
    std::string ctx = " state=" + ol::describe(oo, 400);
    if (b.size() < 16 || memcmp(b.data(), "LOBJ", 4)) { hc::viol(keyp + "no-signature" + ks, ctx); delete o; delete orig; return; }
    uint16_t hs, hv; uint32_t osz, ty;
    memcpy(&hs, &b[4], 2); memcpy(&hv, &b[6], 2); memcpy(&osz, &b[8], 4); memcpy(&ty, &b[12], 4);
    size_t emitted = b.size();
    // header size field vs header bytes for this header base, and vs bytes attributed to header members
    unsigned hb = header_bytes(ci->header);
    if (hs != hb) hc::viol(keyp + "headerSize-field!=header-bytes" + ks, "field=" + std::to_string(hs) + " expected=" + std::to_string(hb) + ctx);
    size_t attributed_hdr = 0, attributed_member = 0, unattributed = 0, unattributed_nonzero = 0;
    const uint8_t * obase = reinterpret_cast<const uint8_t *>(o);
    std::map<const void *, const vr::Field *> bymember;
    for (auto & f : ob.f) if (!f.variable()) bymember[f.ptr] = &f;
    // attribute chunks
    std::map<std::string, size_t> cont_emitted;   // container path -> bytes emitted
    std::map<std::string, size_t> field_off;      // scalar path -> offset in output
    size_t pad_unattr_tail = 0;
    for (size_t ci_ = 0; ci_ < mf.wr.size(); ci_++) {
        auto & c = mf.wr[ci_];
        const uint8_t * s = static_cast<const uint8_t *>(c.src);
        bool found = false;
        // containers first: short std::string payloads live inside the object (SSO)
        for (auto & f : ob.f) {
            if (!f.variable()) continue;
            if (c.n > 0 && s >= f.data() && s < f.data() + f.nbytes()) {
                found = true; cont_emitted[f.path] += c.n; attributed_member += c.n;
                if (s + c.n > f.data() + f.nbytes())
                    hc::viol(keyp + "emits-past-container:" + f.path + ks, "chunk " + std::to_string(c.n) + " > container " + std::to_string(f.nbytes()) + ctx);
                break;
            }
            if (c.n == 0 && s == f.data()) { found = true; cont_emitted[f.path] += 0; break; }
        }
        if (!found && s >= obase && s < obase + ci->size) {
            for (auto & f : ob.f) {
                if (f.variable()) continue;
                const uint8_t * p = static_cast<const uint8_t *>(f.ptr);
                if (s >= p && s < p + f.elem * f.n) {
                    found = true;
                    if (s == p) field_off[f.path] = c.off;
                    if (is_header_owner(f.owner)) attributed_hdr += c.n; else attributed_member += c.n;
                    if (s + c.n > p + f.elem * f.n)
                        hc::viol(keyp + "emits-past-member:" + f.path + ks, "chunk of " + std::to_string(c.n) + " bytes from member of " + std::to_string(f.elem * f.n) + ctx);
                    break;
                }
            }
            if (!found) { found = true; attributed_member += c.n; }   // other bytes inside the object: counted as object bytes
        }
        if (!found) {
            unattributed += c.n;
            for (size_t k = 0; k < c.n; k++) if (b[c.off + k]) unattributed_nonzero++;
            if (c.off + c.n == emitted) pad_unattr_tail = c.n;
        }
    }
    if (attributed_hdr != hs)
        hc::viol(keyp + "headerSize-field!=bytes-from-header-members" + ks, "field=" + std::to_string(hs) + " attributed=" + std::to_string(attributed_hdr) + ctx);
    if (ty != expect_type) hc::viol(keyp + "objectType-field" + ks, "field=" + std::to_string(ty) + " object has " + std::to_string(expect_type) + ctx);
    // object size / padding
    unsigned want_pad = osz % 4;
    bool pads = padset.count(ty), nopads = nopadset.count(ty);
    long long tail = (long long)emitted - (long long)osz;
    if (pads) {
        if (tail != (long long)want_pad)
            hc::viol(keyp + "emitted!=objectSize+pad" + ks, "emitted=" + std::to_string(emitted) + " objectSize=" + std::to_string(osz) + " pad-type residue=" + std::to_string(want_pad) + ctx);
        else {
            for (unsigned k = 0; k < want_pad; k++) if (b[osz + k]) { hc::viol(keyp + "pad-not-zero" + ks, ctx); break; }
            if (want_pad && pad_unattr_tail != want_pad) hc::viol(keyp + "pad-attributed-to-member" + ks, ctx);
        }
    } else if (nopads) {
        if (tail != 0)
            hc::viol(keyp + "emitted!=objectSize(no-pad-type)" + ks, "emitted=" + std::to_string(emitted) + " objectSize=" + std::to_string(osz) + ctx);
    } else {
        if (tail != 0 && tail != (long long)want_pad)
            hc::viol(keyp + "emitted!=objectSize" + ks, "emitted=" + std::to_string(emitted) + " objectSize=" + std::to_string(osz) + ctx);
    }
    if (osz % 4) st.residues[osz % 4].insert((int)ty);
    // length fields inside the bytes vs containers actually emitted, and caller payload emitted in full
    for (auto & l : ol::LENS) {
        if (strcmp(l.cls, ci->name)) continue;
        const vr::Field & lf = ob.get(l.len); const vr::Field & cf = ob.get(l.cont);
        if (!ol::active(oo, oo.get(l.cont))) continue;
        auto it = field_off.find(l.len);
        if (it == field_off.end()) { hc::viol(keyp + "length-field-not-emitted:" + l.len + ks, ctx); continue; }
        uint64_t v = 0; memcpy(&v, &b[it->second], lf.elem);
        size_t em = cont_emitted.count(l.cont) ? cont_emitted[l.cont] : 0;
        if (v * l.unit != em)
            hc::viol(keyp + "length-field!=payload-emitted:" + l.len + ks, "field=" + std::to_string(v) + " emitted=" + std::to_string(em) + ctx);
        const vr::Field & of = oo.get(l.cont);
        if (em != of.nbytes())
            hc::viol(keyp + "payload-not-emitted-in-full:" + l.cont + ks, "container=" + std::to_string(of.nbytes()) + " emitted=" + std::to_string(em) + ctx);
    }
    // decode consumes exactly what was emitted
    {
        ObjectHeaderBase * d = ci->make();
        MemFile in; in.buf = b; in.buf.insert(in.buf.end(), 64, 0xCD);   // trailing sentinel so over-consumption is visible, not EOF
        d->read(in);
        long long consumed = in.failb ? -1 : (long long)in.g;
        if (consumed != (long long)emitted)
            hc::viol(keyp + "decode-consumed!=emitted" + ks, "consumed=" + std::to_string(consumed) + " emitted=" + std::to_string(emitted) + ctx);
        else {
            st.decoded++;
            Obj od(ci, d);
            auto diff = ol::compare(oo, od);
            if (!diff.empty())
                hc::viol(keyp + "decode!=encoded-state:" + diff[0].path + ks, "wrote " + diff[0].a + " read " + diff[0].b + ctx);
        }
        if (in.min_g < 0) hc::viol(keyp + "decode-seeks-before-start" + ks, ctx);
        delete d;
    }
    delete o; delete orig;
}

static int run_c03(uint64_t seed, int from, int to, int per_class) {
    std::set<unsigned> padset = parse_set("VERIF_PADSET"), nopadset = parse_set("VERIF_NOPADSET");
    if (padset.empty()) { fprintf(stderr, "HARNESS: VERIF_PADSET missing\n"); return 2; }
    ol::spec_selfcheck();
    for (int c = from; c < to && c < vr::nclasses; c++) {
        hc::begin_case(std::to_string(c));
        wd::arm(600, "c03-class");
        const vr::ClassInfo * ci = &vr::classes[c];
        C03Stats st; std::string sample;
        Rng r(Rng::mix(seed, c));
        bool variable = false;
        { ObjectHeaderBase * o = ci->make(); Obj ob(ci, o); for (auto & f : ob.f) if (f.variable()) variable = true; delete o; }
        for (int i = 0; i < per_class; i++) {
            int fixed = -1;
            if (variable && i < 40) fixed = i % 10;       // payload lengths 0..9 for every container: every residue mod 4
            c03_state(ci, r, padset, nopadset, st, fixed, sample);
        }
        std::string sh = "[";
        int k = 0; for (auto & s : st.shapes) { if (k++) sh += ","; sh += hc::jstr(s); if (k > 400) break; }
        sh += "]";
        char buf[256];
        snprintf(buf, sizeof buf, "{\"states\":%ld,\"decoded\":%ld,\"stale\":%ld,\"reused\":%ld,\"classes\":1,\"variable_classes\":%d,", st.states, st.decoded, st.stale, st.reused, variable ? 1 : 0);
        std::string res = "[";
        for (int m = 1; m < 4; m++) for (int t : st.residues[m]) { if (res.size() > 1) res += ","; res += "\"" + std::to_string(t) + "%" + std::to_string(m) + "\""; }
        res += "]";
        hc::stat(std::string(buf) + "\"shapes\":" + sh + ",\"residues\":" + res + ",\"samples\":[" + hc::jstr(sample) + "]}");
    }
    return 0;
}


// ---------------------------------------------------------------------------------------------------------------- C02
// images file: repeated records [u32 type][u32 objectSize][u32 len][len bytes]  (len >= objectSize: image incl. trailing pad)
struct Image { uint32_t type, osz; std::vector<uint8_t> b; std::string origin; };

static std::vector<Image> load_images(const char * path) {
    std::vector<Image> v; FILE * f = fopen(path, "rb"); if (!f) { fprintf(stderr, "HARNESS: cannot open %s\n", path); _exit(2); }
    uint32_t h[3];
    while (fread(h, 4, 3, f) == 3) { Image im; im.type = h[0]; im.osz = h[1]; im.b.resize(h[2]); if (h[2] && fread(im.b.data(), 1, h[2], f) != h[2]) break; v.push_back(im); }
    fclose(f); return v;
}

static size_t g_alloc_cap = 0;   // operator new above this throws bad_alloc (0 = off)
void * operator new(size_t n) { if (g_alloc_cap && n > g_alloc_cap) throw std::bad_alloc(); void * p = malloc(n ? n : 1); if (!p) throw std::bad_alloc(); return p; }
void operator delete(void * p) noexcept { free(p); }
void operator delete(void * p, size_t) noexcept { free(p); }
void * operator new[](size_t n) { return operator new(n); }
void operator delete[](void * p) noexcept { free(p); }
void operator delete[](void * p, size_t) noexcept { free(p); }

struct Decoded { ObjectHeaderBase * o; const vr::ClassInfo * ci; long long consumed; bool good; std::string shape; std::vector<bool> readmask; };

static std::string shape_of(const Obj & ob, long long consumed, bool good) {
    std::string s = std::to_string(consumed) + (good ? "g" : "b") + ":" + std::to_string(ob.o->calculateObjectSize());
    for (auto & f : ob.f) {
        ol::Role ro = ol::role(ob, f);
        if (f.variable()) s += ":" + std::to_string(f.count());
        else if (ro == ol::R_NONSER) s += ":n" + std::to_string(f.as_u64());
    }
    std::string cls = ob.ci->name;
    if (cls == "SerialEvent") s += ":f" + std::to_string(ob.u("flags") & 12);
    if (cls == "CanErrorFrame") s += ":l" + std::to_string(ob.u("length") > 0);
    if (cls == "CanFdMessage64") s += ":x" + std::to_string(static_cast<CanFdMessage64 *>(ob.o)->hasExtData());
    if (cls == "CanFdErrorFrame64") s += ":x" + std::to_string(static_cast<CanFdErrorFrame64 *>(ob.o)->hasExtData());
    s += ":t" + std::to_string((unsigned)ob.o->objectType) + ":h" + std::to_string(ob.o->headerSize) + ":v" + std::to_string(ob.o->headerVersion);
    return s;
}

static bool decode_image(const std::vector<uint8_t> & img, uint32_t type, Decoded & d, bool want_mask = false) {
    d.o = File::createObject((ObjectType)type); d.ci = nullptr; d.consumed = -1; d.good = false;
    if (!d.o) return false;
    d.ci = ol::class_of(d.o);
    if (!d.ci) { delete d.o; d.o = nullptr; return false; }
    MemFile in; in.buf = img; in.trace = want_mask;
    try { d.o->read(in); } catch (std::exception &) { delete d.o; d.o = nullptr; return false; }
    if (want_mask) { d.readmask.assign(img.size(), false); for (auto & c : in.rd) for (size_t k = 0; k < c.n && c.off + k < img.size(); k++) d.readmask[c.off + k] = true; }
    d.good = !in.failb && in.min_g >= 0;
    d.consumed = in.failb ? -1 : (long long)in.g;
    Obj ob(d.ci, d.o);
    d.shape = shape_of(ob, d.consumed, d.good);
    return true;
}

// compare encode(obj) with img under rule (a). returns empty string if equal, else description "member@offset"
static std::string roundtrip_diff(const Decoded & d, const std::vector<uint8_t> & img, const std::set<unsigned> & padset) {
    MemFile out; out.trace = true;
    d.o->write(out);
    Obj ob(d.ci, d.o);
    // map output offset -> member path
    auto member_at = [&](size_t off) -> std::string {
        for (auto & c : out.wr) {
            if (off < c.off || off >= c.off + c.n) continue;
            const uint8_t * s = static_cast<const uint8_t *>(c.src) + (off - c.off);
            for (auto & f : ob.f) {
                if (f.variable()) { if (f.nbytes() && s >= f.data() && s < f.data() + f.nbytes()) return f.path; }
                else { const uint8_t * p = static_cast<const uint8_t *>(f.ptr); if (s >= p && s < p + f.elem * f.n) return f.path; }
            }
            return "<padding>";
        }
        return "<none>";
    };
    const std::vector<uint8_t> & e = out.buf;
    size_t n = std::min(e.size(), img.size());
    for (size_t i = 0; i < n; i++) {
        if (e[i] == img[i]) continue;
        std::string m = member_at(i);
        const vr::Field * f = ob.find(m);
        if (f) {
            ol::Role ro = ol::role(ob, *f);
            if (m == "headerSize" || m == "objectSize" || ro == ol::R_LEN || ro == ol::R_DERIVED) continue;   // recomputed by design: checked below
        }
        return m + "@" + std::to_string(i) + " wrote " + vr::hex(&e[i], 1) + " image " + vr::hex(&img[i], 1);
    }
    if (e.size() != img.size()) return "<length> encoded " + std::to_string(e.size()) + " image " + std::to_string(img.size());
    // recomputed fields against independently recomputed values
    uint16_t hs; uint32_t osz; memcpy(&hs, &e[4], 2); memcpy(&osz, &e[8], 4);
    if (hs != header_bytes(d.ci->header)) return "headerSize(recomputed) " + std::to_string(hs);
    unsigned pad = padset.count((unsigned)d.o->objectType) ? osz % 4 : 0;
    if ((size_t)osz + pad != e.size() && (size_t)osz != e.size()) return "objectSize(recomputed) " + std::to_string(osz) + " emitted " + std::to_string(e.size());
    for (auto & l : ol::LENS) {
        if (strcmp(l.cls, d.ci->name)) continue;
        const vr::Field & lf = ob.get(l.len); const vr::Field & cf = ob.get(l.cont);
        if (!ol::active(ob, cf)) continue;
        uint64_t mask = lf.elem >= 8 ? ~0ULL : ((1ULL << (8 * lf.elem)) - 1);
        if (lf.as_u64() != ((cf.nbytes() / l.unit) & mask)) return std::string(l.len) + "(recomputed) " + std::to_string(lf.as_u64()) + " container " + std::to_string(cf.nbytes());
    }
    return "";
}

static int run_c02(uint64_t seed, int from, int to, const char * path, int extra_random) {
    std::set<unsigned> padset = parse_set("VERIF_PADSET");
    ol::spec_selfcheck();
    std::vector<Image> imgs = load_images(path);
    g_alloc_cap = 64u << 20;
    // two decoders at once: the images of this shard are decoded and re-encoded on two threads simultaneously (one forwards, one
    // backwards); any state shared between decoders (a static scratch buffer, say) shows as a round-trip difference or an ASan report
    auto concurrent_stage = [&]() {
        long conc_bad = 0; int from = 0, to = (int)imgs.size();
        auto sweep = [&](bool fwd, std::vector<std::string> * errs) {
            for (int k = 0; k < 40; k++) for (int c = from; c < to && c < (int)imgs.size(); c++) {
                int ci = fwd ? c : (to - 1 - (c - from)); if (ci >= (int)imgs.size()) continue;
                Decoded d; if (!decode_image(imgs[ci].b, imgs[ci].type, d)) continue;
                std::string x = roundtrip_diff(d, imgs[ci].b, padset);
                if (!x.empty()) errs->push_back(std::string(d.ci->name) + ":" + x.substr(0, x.find('@')) + " image " + std::to_string(ci) + " " + x);
                delete d.o;
            }
        };
        std::vector<std::string> e1, e2;
        std::thread t(sweep, false, &e2); sweep(true, &e1); t.join();
        // only differences that do NOT occur sequentially are attributed to concurrency (the sequential pass below reports the others)
        std::set<std::string> seqbad;
        for (int c = from; c < to && c < (int)imgs.size(); c++) { Decoded d; if (!decode_image(imgs[c].b, imgs[c].type, d)) continue; std::string x = roundtrip_diff(d, imgs[c].b, padset); if (!x.empty()) seqbad.insert(std::to_string(c)); delete d.o; }
        for (auto * ev : {&e1, &e2}) for (auto & m : *ev) {
            size_t p1 = m.find(" image "); std::string idx = m.substr(p1 + 7, m.find(' ', p1 + 7) - (p1 + 7));
            if (!seqbad.count(idx)) { conc_bad++; hc::viol("concurrent-decoders:" + m.substr(0, m.find(" image ")), m); }
        }
        (void)conc_bad;
    };
    static const uint8_t bvals[] = {0x00, 0x01, 0x7f, 0x80, 0xff};
    if (to > (int)imgs.size() && from <= (int)imgs.size()) { hc::begin_case(std::to_string(imgs.size())); wd::arm(600, "c02-concurrent"); concurrent_stage(); hc::stat("{\"concurrent_decoder_rounds\":40}"); }
    for (int c = from; c < to && c < (int)imgs.size(); c++) {
        hc::begin_case(std::to_string(c));
        wd::arm(900, "c02-image");
        const Image & im = imgs[c];
        long mutated = 0, preserved = 0, undecodable = 0, not_field = 0;
        Decoded d0;
        std::string cls = "type" + std::to_string(im.type);
        if (!decode_image(im.b, im.type, d0, true)) { hc::viol(cls + ":reference-image-not-decodable", "image " + std::to_string(c)); continue; }
        cls = d0.ci->name;
        bool whole = d0.good && d0.consumed == (long long)im.b.size();
        if (!whole) hc::viol(cls + ":decode-consumed!=image", "consumed " + std::to_string(d0.consumed) + " of " + std::to_string(im.b.size()) + " image " + std::to_string(c));
        std::string df = roundtrip_diff(d0, im.b, padset);
        if (!df.empty()) hc::viol(cls + ":reencode-differs:" + df.substr(0, df.find('@')), df + " image " + std::to_string(c) + " objectSize " + std::to_string(im.osz));
        std::set<std::string> reported;
        auto try_image = [&](const std::vector<uint8_t> & m, const char * what, size_t off) {
            mutated++;
            Decoded d;
            if (!decode_image(m, im.type, d)) { undecodable++; return; }
            if (d.shape == d0.shape && d.good) {
                preserved++;
                std::string x = roundtrip_diff(d, m, padset);
                if (!x.empty()) {
                    std::string k = cls + ":reencode-differs-after-overwrite:" + x.substr(0, x.find('@'));
                    if (!reported.count(k)) { reported.insert(k); hc::viol(k, x + " after " + what + " at offset " + std::to_string(off) + " image " + std::to_string(c)); }
                }
            }
            delete d.o;
        };
        size_t end = std::min<size_t>(im.osz, im.b.size());
        std::vector<uint8_t> m = im.b;
        // bytes the decoder skips (alignment padding, unused part of the serial-event union) are not field values: out of scope
        auto isfield = [&](size_t off, size_t w) { for (size_t k = 0; k < w; k++) if (!d0.readmask[off + k]) return false; return true; };
        for (size_t off = 16; off < end; off++) {
            if (!isfield(off, 1)) { not_field++; continue; }
            uint8_t old = m[off];
            uint8_t vals[7] = {bvals[0], bvals[1], bvals[2], bvals[3], bvals[4], (uint8_t)(old ^ 1), (uint8_t)(old ^ 0x80)};
            for (int k = 0; k < 7; k++) { if (vals[k] == old) continue; m[off] = vals[k]; try_image(m, "byte", off); }
            m[off] = old;
        }
        for (size_t w = 2; w <= 8; w *= 2)
            for (size_t off = 16; off + w <= end; off += w) {
                if (!isfield(off, w)) continue;
                uint8_t save[8]; memcpy(save, &m[off], w);
                for (int k = 0; k < 5; k++) {
                    uint8_t g[8];
                    switch (k) { case 0: memset(g, 0, w); break; case 1: memset(g, 0, w); g[0] = 1; break; case 2: memset(g, 0xff, w); g[w - 1] = 0x7f; break;
                        case 3: memset(g, 0, w); g[w - 1] = 0x80; break; default: memset(g, 0xff, w); }
                    if (!memcmp(g, save, w)) continue;
                    memcpy(&m[off], g, w); try_image(m, w == 2 ? "group2" : w == 4 ? "group4" : "group8", off);
                }
                memcpy(&m[off], save, w);
            }
        // random simultaneous overwrites (pairs/triples)
        Rng r(Rng::mix(seed, c));
        for (int i = 0; i < extra_random && end > 17; i++) {
            std::vector<uint8_t> mm = im.b; int n = 2 + r.below(2);
            size_t first = 0;
            for (int k = 0; k < n; k++) { size_t off = 16 + r.below((uint32_t)(end - 16)); if (!isfield(off, 1)) continue; if (!k) first = off; mm[off] = r.chance(1, 2) ? bvals[r.below(5)] : (uint8_t)r.next(); }
            try_image(mm, "multi", first);
        }
        std::ostringstream st;
        st << "{\"images\":1,\"whole\":" << (whole ? 1 : 0) << ",\"skipped_nonfield_bytes\":" << not_field << ",\"mutated\":" << mutated << ",\"shape_preserving\":" << preserved << ",\"undecodable\":" << undecodable
           << ",\"types\":[" << im.type << "],\"samples\":[" << ((c % 64 == 0) ? hc::jstr(std::string(d0.ci->name) + " image " + std::to_string(c) + " " + vr::hex(im.b.data(), im.b.size(), 40)) : std::string()) << "]}";
        hc::stat(st.str());
        delete d0.o;
    }
    return 0;
}

// ---------------------------------------------------------------------------------------------------------------- C17
static const char * expected_class(unsigned code) {
    for (auto & t : ol::TYPES) if (t.code == code) return t.cls;
    return nullptr;
}

static std::string tname(const ObjectHeaderBase * o) {
    if (dynamic_cast<const LogContainer *>(o)) return "LogContainer";
    const vr::ClassInfo * ci = ol::class_of(o);
    return ci ? ci->name : std::string("?") + typeid(*o).name();
}

static int run_c17(uint64_t seed) {
    ol::spec_selfcheck();
    hc::begin_case("0");
    wd::arm(300, "c17");
    long codes = 0, mapped = 0, nothing = 0; std::vector<std::string> samples;
    Rng r(seed);
    std::vector<uint32_t> all;
    for (uint32_t c = 0; c < 256; c++) all.push_back(c);
    all.push_back(256); all.push_back(0x7fffffff); all.push_back(0xffffffff); all.push_back(0x80000000u); all.push_back(65536 + 1);
    for (int i = 0; i < 1000; i++) all.push_back((uint32_t)r.next());
    for (uint32_t c : all) {
        codes++;
        const char * exp = c <= 255 ? expected_class(c) : nullptr;
        ObjectHeaderBase * o = File::createObject((ObjectType)c);
        if (!o) { if (samples.size() < 6 && (c == 0 || c == 108 || c > 1000000)) samples.push_back("createObject(" + std::to_string(c) + ") -> nothing"); nothing++; if (exp) hc::viol("factory:" + std::to_string(c) + ":nothing-for-known-code", std::string("expected ") + exp); continue; }
        mapped++;
        std::string got = tname(o);
        if (samples.size() < 4 && (c % 37 == 1 || c == 115)) samples.push_back("createObject(" + std::to_string(c) + ") -> " + got + ", table says " + (exp ? exp : "nothing") + ", object carries code " + std::to_string((uint32_t)o->objectType));
        if (!exp) hc::viol("factory:" + std::to_string(c) + ":object-for-unknown-code", "got " + got);
        else if (got != exp) hc::viol("factory:" + std::to_string(c) + ":wrong-class", std::string("expected ") + exp + " got " + got);
        else if ((uint32_t)o->objectType != c && got != "EnvironmentVariable" && got != "J1708Message")
            hc::viol("factory:" + std::to_string(c) + ":object-carries-other-code", "objectType=" + std::to_string((uint32_t)o->objectType));
        delete o;
    }
    // every table entry names a class the reflection knows (or LogContainer) and vice versa
    std::set<std::string> table; for (auto & t : ol::TYPES) table.insert(t.cls);
    for (int i = 0; i < vr::nclasses; i++) if (!table.count(vr::classes[i].name)) { fprintf(stderr, "HARNESS: class %s not in type table\n", vr::classes[i].name); return 2; }
    for (auto & t : table) if (t != "LogContainer" && !ol::find_class(t)) { fprintf(stderr, "HARNESS: table class %s not found by reflection\n", t.c_str()); return 2; }
    // constructor code -> factory -> same class; encoding carries that code; decode of the encoding gives class & code back
    long ctor = 0;
    for (int i = 0; i < vr::nclasses; i++) {
        const vr::ClassInfo * ci = &vr::classes[i];
        ObjectHeaderBase * o = ci->make(); ctor++;
        uint32_t code = (uint32_t)o->objectType;
        ObjectHeaderBase * f = File::createObject((ObjectType)code);
        std::string cls = ci->name;
        if (!f) hc::viol("ctor:" + cls + ":code-maps-to-nothing", "constructor code " + std::to_string(code));
        else {
            std::string got = tname(f);
            if (got != cls) hc::viol("ctor:" + cls + ":code-maps-to-other-class", "constructor code " + std::to_string(code) + " -> " + got);
            delete f;
        }
        const char * exp = expected_class(code);
        if (exp && cls != exp) hc::viol("ctor:" + cls + ":code-of-other-type", "constructor code " + std::to_string(code) + " belongs to " + exp);
        MemFile mf; o->write(mf);
        uint32_t wcode = 0; if (mf.buf.size() >= 16) memcpy(&wcode, &mf.buf[12], 4);
        if (wcode != code) hc::viol("ctor:" + cls + ":written-under-other-code", "object has " + std::to_string(code) + " bytes say " + std::to_string(wcode));
        delete o;
    }
    // determined fields: construct each class in memory pre-filled with different patterns; fields and encoding must agree
    static const uint8_t pats[] = {0x00, 0xFF, 0xA5, 0x5A};
    long poison = 0, fields_checked = 0;
    for (int i = 0; i < vr::nclasses; i++) {
        const vr::ClassInfo * ci = &vr::classes[i];
        std::vector<std::vector<uint8_t>> enc;
        std::vector<std::vector<std::pair<std::string, std::string>>> vals;
        for (uint8_t p : pats) {
            void * mem = ::operator new(ci->size + 64);
            memset(mem, p, ci->size + 64);
            ObjectHeaderBase * o = vr::construct_at(i, mem);
            Obj ob(ci, o);
            std::vector<std::pair<std::string, std::string>> v;
            for (auto & f : ob.f) v.push_back({f.path, f.variable() ? vr::hex(f.data(), f.nbytes(), 64) + "#" + std::to_string(f.count()) : vr::hex((const uint8_t *)f.ptr, f.elem * f.n, 600)});
            vals.push_back(v);
            MemFile mf; o->write(mf); enc.push_back(mf.buf);
            o->~ObjectHeaderBase();
            ::operator delete(mem);
            poison++;
        }
        for (size_t k = 1; k < vals.size(); k++) {
            for (size_t j = 0; j < vals[0].size(); j++) {
                fields_checked++;
                if (vals[k][j].second != vals[0][j].second) {
                    hc::viol(std::string("fresh:") + ci->name + ":member-undetermined:" + vals[0][j].first, "pattern 00 -> " + vals[0][j].second + ", pattern " + vr::hex(&pats[k], 1) + " -> " + vals[k][j].second);
                }
            }
            if (enc[k] != enc[0]) {
                size_t off = 0; while (off < enc[0].size() && off < enc[k].size() && enc[0][off] == enc[k][off]) off++;
                hc::viol(std::string("fresh:") + ci->name + ":encoding-depends-on-memory", "first differing offset " + std::to_string(off) + " of " + std::to_string(enc[0].size()));
            }
        }
    }
    // through the file layer: an object of every mapped code (a default-constructed one of every class among them), followed by a
    // sentinel, written with File::write and read back with File::read: same class, same code, then the sentinel, then the end
    long file_trips = 0;
    {
        const char * tmp = getenv("VERIF_TMP"); std::string path = std::string(tmp ? tmp : "/dev/shm") + "/c17." + std::to_string(getpid()) + ".blf";
        struct Trip { std::string what; ObjectHeaderBase * o; uint32_t code; std::string cls; };
        std::vector<Trip> trips;
        for (int i = 0; i < vr::nclasses; i++) { ObjectHeaderBase * o = vr::classes[i].make(); trips.push_back({std::string("default ") + vr::classes[i].name, o, (uint32_t)o->objectType, vr::classes[i].name}); }
        for (uint32_t c = 0; c < 256; c++) { ObjectHeaderBase * o = File::createObject((ObjectType)c); if (!o) continue; if (tname(o) == "LogContainer") { delete o; continue; } std::string cls = tname(o); o->objectType = (ObjectType)c; trips.push_back({"createObject(" + std::to_string(c) + ")", o, c, cls}); }
        for (size_t t = 0; t < trips.size(); t++) {
            Trip & tr = trips[t];
            std::string key = "file:" + tr.cls + ":" + std::to_string(tr.code);
            try {
                {
                    File f; f.open(path.c_str(), std::ios_base::out);
                    if (!f.is_open()) { fprintf(stderr, "HARNESS: cannot write %s\n", path.c_str()); return 2; }
                    f.write(tr.o); tr.o = nullptr;
                    CanMessage * m = new CanMessage; m->id = 0x17170000u + (uint32_t)t; m->dlc = 8; f.write(m);
                    f.close();
                }
                File f; f.open(path.c_str(), std::ios_base::in);
                std::vector<std::string> got;
                bool ok = true; int n = 0;
                while (ObjectHeaderBase * o = f.read()) {
                    got.push_back(tname(o) + "/" + std::to_string((uint32_t)o->objectType));
                    if (n == 0 && (tname(o) != tr.cls || (uint32_t)o->objectType != tr.code)) ok = false;
                    if (n == 1) { CanMessage * m = dynamic_cast<CanMessage *>(o); if (!m || m->id != 0x17170000u + (uint32_t)t) ok = false; }
                    delete o; if (++n > 8) break;
                }
                f.close();
                if (n != 2) ok = false;
                file_trips++;
                if (!ok) { std::string g; for (auto & x : got) g += x + " "; hc::viol(key + ":not-read-back-as-written", tr.what + ": wrote " + tr.cls + "/" + std::to_string(tr.code) + " CanMessage/1, read back: " + (g.empty() ? "nothing" : g)); }
            } catch (std::exception & e) { hc::viol(key + ":exception", tr.what + ": " + e.what()); }
            delete tr.o;
        }
        unlink(path.c_str());
        samples.push_back(std::to_string(file_trips) + " File::write -> File::read round trips (every class default-constructed, every mapped code 0..255), each followed by a sentinel object");
    }
    samples.push_back("each of " + std::to_string(vr::nclasses) + " classes constructed in memory pre-filled with 00/FF/A5/5A: e.g. " + std::string(vr::classes[r.below(vr::nclasses)].name) + " - every member and the encoding compared across the four");
    std::ostringstream so; so << "{\"codes\":" << codes << ",\"mapped\":" << mapped << ",\"nothing\":" << nothing << ",\"classes\":" << vr::nclasses << ",\"ctor_checks\":" << ctor
       << ",\"poison_constructions\":" << poison << ",\"file_round_trips\":" << file_trips << ",\"fields_compared\":" << fields_checked << ",\"samples\":[";
    for (size_t i = 0; i < samples.size(); i++) so << (i ? "," : "") << hc::jstr(samples[i]);
    so << "]}";
    hc::stat(so.str());
    return 0;
}

int main(int argc, char ** argv) {
    hc::out_init();
    if (argc < 5) { fprintf(stderr, "usage: h_codec mode seed from to [n]\n"); return 2; }
    wd::start();
    std::string mode = argv[1];
    uint64_t seed = strtoull(argv[2], nullptr, 0);
    int from = atoi(argv[3]), to = atoi(argv[4]);
    if (mode == "c03") return run_c03(seed, from, to, argc > 5 ? atoi(argv[5]) : 100);
    if (mode == "c17") return run_c17(seed);
    if (mode == "c02") return run_c02(seed, from, to, argc > 5 ? argv[5] : "", argc > 6 ? atoi(argv[6]) : 0);
    if (mode == "nclasses") { printf("%d\n", vr::nclasses); return 0; }
    return 2;
}
