// Object-level helpers shared by the functional harnesses: independent spec tables (length fields,
// rest-of-object containers, variant gates), random population "the way the API is used", deep compare, printing.
// The tables are hand-written from the BLF format description; every container member found by reflection must be
// covered by them, otherwise the harness exits 2 (fail closed), see spec_selfcheck().
#pragma once
#include <Vector/BLF.h>
#include <cinttypes>
#include <map>
#include <set>
#include <sstream>
#include "reflect_gen.h"
#include "rng.h"

namespace ol {
using namespace Vector::BLF;
using vr::Field;
using vr::ClassInfo;

// ---- spec tables ---------------------------------------------------------------------------------------------------
struct LenSpec { const char * cls; const char * len; const char * cont; unsigned unit; };  // len * unit == bytes of cont... see below
// value(len) == bytes(cont) / unit   (unit = bytes per length unit)
static const LenSpec LENS[] = {
    {"AfdxFrame", "payLoadLength", "payLoad", 1},
    {"AppText", "textLength", "text", 1},
    {"AttributeEvent", "mainAttributableObjectPathLength", "mainAttributableObjectPath", 1},
    {"AttributeEvent", "memberPathLength", "memberPath", 1},
    {"AttributeEvent", "attributeDefinitionPathLength", "attributeDefinitionPath", 1},
    {"AttributeEvent", "dataLength", "data", 1},
    {"CanFdErrorFrame64", "validDataBytes", "data", 1},
    {"CanFdMessage64", "validDataBytes", "data", 1},
    {"DiagRequestInterpretation", "ecuQualifierLength", "ecuQualifier", 1},
    {"DiagRequestInterpretation", "variantQualifierLength", "variantQualifier", 1},
    {"DiagRequestInterpretation", "serviceQualifierLength", "serviceQualifier", 1},
    {"DistributedObjectMember", "pathLength", "path", 1},
    {"DistributedObjectMember", "dataLength", "data", 1},
    {"EnvironmentVariable", "nameLength", "name", 1},
    {"EnvironmentVariable", "dataLength", "data", 1},
    {"EthernetErrorEx", "frameLength", "frameData", 1},
    {"EthernetErrorForwarded", "frameLength", "frameData", 1},
    {"EthernetFrame", "payLoadLength", "payLoad", 1},
    {"EthernetFrameEx", "frameLength", "frameData", 1},
    {"EthernetFrameForwarded", "frameLength", "frameData", 1},
    {"EthernetRxError", "frameDataLength", "frameData", 1},
    {"EventComment", "textLength", "text", 1},
    {"FlexRayVFrReceiveMsgEx", "dataCount", "dataBytes", 1},
    {"FunctionBus", "nameLength", "name", 1},
    {"FunctionBus", "dataLength", "data", 1},
    {"GlobalMarker", "groupNameLength", "groupName", 1},
    {"GlobalMarker", "markerNameLength", "markerName", 1},
    {"GlobalMarker", "descriptionLength", "description", 1},
    {"Most150AllocTab", "length", "tableData", 1},
    {"Most150Message", "msgLen", "msg", 1},
    {"Most150MessageFragment", "firstDataLen", "firstData", 1},
    {"Most150Pkt", "pktDataLength", "pktData", 1},
    {"Most150PktFragment", "firstDataLen", "firstData", 1},
    {"Most50Message", "msgLen", "msg", 1},
    {"Most50Pkt", "pktDataLength", "pktData", 1},
    {"MostAllocTab", "length", "tableData", 1},
    {"MostEthernetPkt", "pktDataLength", "pktData", 1},
    {"MostEthernetPktFragment", "firstDataLen", "firstData", 1},
    {"MostPkt", "pktDataLength", "pktData", 1},
    {"MostPkt2", "pktDataLength", "pktData", 1},
    {"RestorePointContainer", "dataLength", "data", 1},
    {"SerialEvent", "general.dataLength", "general.data", 1},
    {"SerialEvent", "general.timeStampsLength", "general.timeStamps", 1},   // in bytes: 8 * elements
    {"SystemVariable", "nameLength", "name", 1},
    {"SystemVariable", "dataLength", "data", 1},
    {"TestStructure", "executingObjectNameLength", "executingObjectName", 2},  // UTF-16 code units
    {"TestStructure", "nameLength", "name", 2},
    {"TestStructure", "textLength", "text", 2},
    {"TriggerCondition", "triggerBlockNameLength", "triggerBlockName", 1},
    {"TriggerCondition", "triggerConditionLength", "triggerCondition", 1},
    {"WlanFrame", "frameLength", "frameData", 1},
};
// containers that are "the rest of the object" (sized from objectSize when decoding)
struct RestSpec { const char * cls; const char * cont; };
static const RestSpec RESTS[] = {
    {"CanErrorFrameExt", "data"},
    {"CanMessage2", "data"},
    {"CanFdMessage64", "reservedCanFdExtFrameData"},
    {"CanFdErrorFrame64", "reservedCanFdExtFrameData"},
    {"CanSettingChanged", "bitTimings.reservedCanFdExtFrameData"},
    {"FlexRayVFrReceiveMsgEx", "reservedFlexRayVFrReceiveMsgEx2"},
};
// members that are never part of the encoding (variant selectors recovered from the size, or plain unused)
struct NonSer { const char * cls; const char * path; };
static const NonSer NONSER[] = {
    {"LinMessage", "reservedLinMessage2_present"},
    {"LinSendError2", "reservedLinSendError3_present"},
    {"LinMessage2", "apiMajor"},
    {"EthernetStatus", "apiMajor"},
    {"CanFdErrorFrame64", "reservedCanFdErrorFrame64"},
};
// other fields the encoder derives by design
struct Derived { const char * cls; const char * path; };
static const Derived DERIVED[] = {
    {"EthernetErrorEx", "structLength"}, {"EthernetErrorForwarded", "structLength"}, {"EthernetFrameEx", "structLength"},
    {"EthernetFrameForwarded", "structLength"}, {"EthernetRxError", "structLength"},
};

inline const ClassInfo * find_class(const std::string & n) {
    for (int i = 0; i < vr::nclasses; i++) if (n == vr::classes[i].name) return &vr::classes[i];
    return nullptr;
}
inline int class_index(const ClassInfo * ci) { return (int)(ci - vr::classes); }

struct Obj {
    const ClassInfo * ci;
    ObjectHeaderBase * o;
    std::vector<Field> f;
    Obj() : ci(nullptr), o(nullptr) {}
    Obj(const ClassInfo * c, ObjectHeaderBase * p) : ci(c), o(p) { vr::Collector col; ci->visit(o, col); f = col.fields; }
    const Field * find(const std::string & p) const { for (auto & x : f) if (x.path == p) return &x; return nullptr; }
    const Field & get(const std::string & p) const {
        const Field * x = find(p);
        if (!x) { fprintf(stderr, "HARNESS: spec names unknown member %s::%s\n", ci->name, p.c_str()); fflush(stderr); _exit(2); }
        return *x;
    }
    uint64_t u(const std::string & p) const { return get(p).as_u64(); }
};

inline const ClassInfo * class_of(const ObjectHeaderBase * o) {
    // by dynamic type name via typeid -> demangled name tail
    const char * tn = typeid(*o).name();   // e.g. N6Vector3BLF10CanMessageE
    static thread_local std::map<std::string, const ClassInfo *> cache;     // harnesses run sessions on several application threads
    auto it = cache.find(tn);
    if (it != cache.end()) return it->second;
    const ClassInfo * res = nullptr;
    for (int i = 0; i < vr::nclasses; i++) {
        std::string n = vr::classes[i].name;
        char buf[128]; snprintf(buf, sizeof buf, "N6Vector3BLF%zu%sE", n.size(), n.c_str());
        if (!strcmp(buf, tn)) { res = &vr::classes[i]; break; }
    }
    cache[tn] = res;
    return res;
}

enum Role { R_PLAIN, R_HEADER_AUTO, R_LEN, R_DERIVED, R_NONSER, R_CONT, R_REST };

inline Role role(const Obj & ob, const Field & f) {
    const std::string cls = ob.ci->name;
    if (f.path == "signature" || f.path == "headerSize" || f.path == "objectSize" || f.path == "headerVersion" ||
            f.path == "objectType") return R_HEADER_AUTO;
    for (auto & l : LENS) if (cls == l.cls && f.path == l.len) return R_LEN;
    for (auto & l : DERIVED) if (cls == l.cls && f.path == l.path) return R_DERIVED;
    for (auto & l : NONSER) if (cls == l.cls && f.path == l.path) return R_NONSER;
    for (auto & l : RESTS) if (cls == l.cls && f.path == l.cont) return R_REST;
    if (f.variable()) return R_CONT;
    return R_PLAIN;
}

inline const LenSpec * len_for_cont(const Obj & ob, const Field & f) {
    for (auto & l : LENS) if (!strcmp(ob.ci->name, l.cls) && f.path == l.cont) return &l;
    return nullptr;
}

// every container member must be covered by LENS or RESTS (or be NONSER) - fail closed otherwise
inline void spec_selfcheck() {
    for (int i = 0; i < vr::nclasses; i++) {
        ObjectHeaderBase * o = vr::classes[i].make();
        Obj ob(&vr::classes[i], o);
        for (auto & f : ob.f) {
            if (!f.variable()) continue;
            Role r = role(ob, f);
            if (r == R_CONT && !len_for_cont(ob, f)) {
                fprintf(stderr, "HARNESS: container %s::%s not covered by spec tables\n", ob.ci->name, f.path.c_str());
                fflush(stderr); _exit(2);
            }
        }
        for (auto & l : LENS) if (!strcmp(l.cls, ob.ci->name)) { ob.get(l.len); ob.get(l.cont); }
        for (auto & l : RESTS) if (!strcmp(l.cls, ob.ci->name)) ob.get(l.cont);
        for (auto & l : NONSER) if (!strcmp(l.cls, ob.ci->name)) ob.get(l.path);
        for (auto & l : DERIVED) if (!strcmp(l.cls, ob.ci->name)) ob.get(l.path);
        delete o;
    }
    for (auto & l : LENS) if (!find_class(l.cls)) { fprintf(stderr, "HARNESS: spec class %s unknown\n", l.cls); _exit(2); }
}

// ---- variant gates: is this member part of the object's active layout? ---------------------------------------------
inline bool starts(const std::string & s, const char * p) { return s.compare(0, strlen(p), p) == 0; }

inline bool active(const Obj & ob, const Field & f) {
    const std::string cls = ob.ci->name;
    const std::string & p = f.path;
    if (cls == "LinMessage2") {
        unsigned api = (unsigned)ob.u("apiMajor");
        if (p == "respBaudrate") return api >= 2;
        if (p == "exactHeaderBaudrate" || p == "earlyStopbitOffset" || p == "earlyStopbitOffsetResponse") return api >= 3;
    } else if (cls == "EthernetStatus") {
        if (p == "reservedEthernetStatus1" || p == "reservedEthernetStatus2") return ob.u("apiMajor") >= 2;
    } else if (cls == "LinMessage") {
        if (p == "reservedLinMessage2") return ob.u("reservedLinMessage2_present") != 0;
    } else if (cls == "LinSendError2") {
        if (p == "reservedLinSendError3") return ob.u("reservedLinSendError3_present") != 0;
    } else if (cls == "CanErrorFrame") {
        if (p == "reservedCanErrorFrame") return ob.u("length") > 0;
    } else if (cls == "SerialEvent") {
        uint32_t fl = (uint32_t)ob.u("flags");
        bool single = fl & 4, compact = !single && (fl & 8), general = !single && !compact;
        if (starts(p, "singleByte.")) return single;
        if (starts(p, "compact.")) return compact;
        if (starts(p, "general.")) return general;
    } else if (cls == "CanFdMessage64") {
        if (p == "btrExtArb" || p == "btrExtData" || p == "reservedCanFdExtFrameData")
            return static_cast<CanFdMessage64 *>(ob.o)->hasExtData();
    } else if (cls == "CanFdErrorFrame64") {
        if (p == "btrExtArb" || p == "btrExtData" || p == "reservedCanFdExtFrameData")
            return static_cast<CanFdErrorFrame64 *>(ob.o)->hasExtData();
    }
    return true;
}

// ---- random population -----------------------------------------------------------------------------------------------
struct GenOpts {
    bool stale_lengths;       // C03: pre-set length fields to garbage before write
    bool big_payloads;        // occasionally large payloads
    int fixed_len;            // >=0: all containers get exactly this many elements
    bool populate_inactive;   // also fill inactive variant members (C14)
    size_t max_len;           // hard cap on container elements (keeps tiny-container sessions tractable)
    GenOpts() : stale_lengths(false), big_payloads(false), fixed_len(-1), populate_inactive(false), max_len((size_t)-1) {}
};

inline uint64_t boundary_value(Rng & r, size_t size) {
    uint64_t all = size >= 8 ? ~0ULL : ((1ULL << (8 * size)) - 1);
    switch (r.below(10)) {
    case 0: return 0;
    case 1: return all;
    case 2: return (all >> 1) + 1;       // sign bit
    case 3: return all >> 1;             // 0x7f..
    case 4: return 1;
    case 5: return r.below(256) & all;
    default: return r.next() & all;
    }
}

inline size_t max_elems(const Obj & ob, const Field & cont) {
    const LenSpec * l = len_for_cont(ob, cont);
    if (!l) return 1u << 20;
    const Field & lf = ob.get(l->len);
    uint64_t maxv = lf.elem >= 4 ? 0xffffffffULL : ((1ULL << (8 * lf.elem)) - 1);
    uint64_t bytes = maxv * l->unit;
    return (size_t)(bytes / cont.esize());
}

inline size_t pick_len(Rng & r, const GenOpts & g, size_t cap) {
    size_t n;
    if (g.fixed_len >= 0) n = (size_t)g.fixed_len;
    else {
        unsigned k = r.below(100);
        if (k < 12) n = 0;
        else if (k < 60) n = r.below(10);
        else if (k < 90) n = r.below(65);
        else if (k < 97) n = r.below(600);
        else if (cap < (1u << 20) && r.chance(1, 2)) n = cap - r.below(cap < 40 ? (uint32_t)cap + 1 : 40);      // at the top of what the length field can express: where narrow size arithmetic wraps
        else if (g.big_payloads) {
            unsigned j = r.below(4);
            n = j == 0 ? 255 : j == 1 ? 65535 : j == 2 ? 65536 + r.below(250000) : r.below(70000);
        } else n = r.below(3000);
    }
    if (n > cap) n = cap;
    if (n > g.max_len) n = g.max_len;
    return n;
}

inline void randomise(Obj & ob, Rng & r, const GenOpts & g = GenOpts()) {
    const std::string cls = ob.ci->name;
    // 1. selectors first
    if (cls == "LinMessage2") ob.get("apiMajor").set_u64(1 + r.below(3));
    if (cls == "EthernetStatus") ob.get("apiMajor").set_u64(1 + r.below(2));
    if (cls == "LinMessage") ob.get("reservedLinMessage2_present").set_u64(r.below(2));
    if (cls == "LinSendError2") ob.get("reservedLinSendError3_present").set_u64(r.below(2));
    if (cls == "EnvironmentVariable") ob.o->objectType = (ObjectType)(6 + r.below(4));
    if (cls == "J1708Message") ob.o->objectType = (ObjectType)(55 + r.below(2));
    for (auto & f : ob.f) {
        Role ro = role(ob, f);
        if (ro == R_HEADER_AUTO || ro == R_NONSER) continue;
        if (ro == R_LEN || ro == R_DERIVED) {
            if (g.stale_lengths) {
                uint64_t v;
                switch (r.below(5)) { case 0: v = 0; break; case 1: v = 1; break; case 2: v = ~0ULL; break; case 3: v = 7 + r.below(300); break;
                    default: v = f.as_u64(); }
                f.set_u64(v);
            }
            continue;
        }
        if (cls == "SerialEvent" && f.path == "flags") {
            static const uint32_t opts[] = {0, 1, 2, 3, 4, 5, 8, 9, 12, 0xfffffff0u, 0xfffffff4u, 0xfffffff8u, 0x10, 0x14};
            f.set_u64(opts[r.below(sizeof opts / sizeof opts[0])]);
            continue;
        }
        if ((cls == "CanFdMessage64" || cls == "CanFdErrorFrame64") && f.path == "extDataOffset") { f.set_u64(0); continue; }
        switch (f.kind) {
        case vr::SCALAR:
            if (f.isfloat) {
                double d;
                switch (r.below(6)) { case 0: d = 0; break; case 1: d = -1.5; break; case 2: d = 1e300; break;
                    case 3: d = (double)(int64_t)r.next() / 1024.0; break; default: d = (double)(int32_t)r.next() * 0.001; }
                if (f.elem == 8) memcpy(f.ptr, &d, 8); else { float x = (float)d; memcpy(f.ptr, &x, 4); }
            } else if (f.elem == 1 && f.path.size() > 8 && f.path.rfind("_present") == f.path.size() - 8) {
                f.set_u64(r.below(2));
            } else f.set_u64(boundary_value(r, f.elem));
            break;
        case vr::ARRAY: {
            unsigned mode = r.below(4);
            uint8_t * p = static_cast<uint8_t *>(f.ptr);
            for (size_t i = 0; i < f.n * f.elem; i++) p[i] = mode == 0 ? 0 : mode == 1 ? 0xff : (uint8_t)r.next();
            break;
        }
        default: {
            size_t n = pick_len(r, g, max_elems(ob, f));
            f.resize(n);
            uint8_t * p = f.wdata();
            size_t nb = n * f.esize();
            unsigned mode = r.below(3);
            for (size_t i = 0; i < nb; i++) p[i] = mode == 0 ? (uint8_t)('a' + i % 26) : (uint8_t)r.next();
        }
        }
    }
    // CAN FD 64 ext-data variant: the API expresses it through extDataOffset (where the ext block starts) and an objectSize
    // large enough to hold it (hasExtData() looks at both before write() recomputes objectSize)
    if ((cls == "CanFdMessage64" || cls == "CanFdErrorFrame64") && r.chance(1, 3)) {
        uint32_t base = ob.o->calculateObjectSize();          // extDataOffset is 0 here: size without the ext block
        const Field & rest = ob.get("reservedCanFdExtFrameData");
        if (base <= 255) { ob.get("extDataOffset").set_u64(base); ob.o->objectSize = base + 8 + (uint32_t)rest.nbytes(); }
    }
    // CanErrorFrame.length is a plain scalar that gates a reserved member: nothing more to do.
    // SerialEvent: only the active variant stays populated unless asked otherwise
    if (!g.populate_inactive) {
        ObjectHeaderBase * fresh = ob.ci->make();
        Obj fo(ob.ci, fresh);
        for (size_t i = 0; i < ob.f.size(); i++) {
            if (active(ob, ob.f[i])) continue;
            Role ro = role(ob, ob.f[i]);
            if (ro == R_NONSER) continue;
            // reset inactive member to its default
            const Field & s = fo.f[i]; const Field & d = ob.f[i];
            if (d.variable()) { d.resize(0); }
            else memcpy(d.ptr, s.ptr, d.elem * d.n);
        }
        delete fresh;
    }
}

// ---- compare -----------------------------------------------------------------------------------------------------------
struct Diff { std::string path; std::string a, b; };

// compare what the caller wrote (a) with what came back (b). Only caller-expressible, active members are compared;
// length fields of b must equal the container sizes of a (library-derived).
inline std::vector<Diff> compare(const Obj & a, const Obj & b, bool check_lengths = true) {
    std::vector<Diff> d;
    if (a.ci != b.ci) { d.push_back({"<class>", a.ci->name, b.ci->name}); return d; }
    for (size_t i = 0; i < a.f.size(); i++) {
        const Field & x = a.f[i]; const Field & y = b.f[i];
        Role ro = role(a, x);
        if (x.path == "objectType") {
            if (x.as_u64() != y.as_u64()) d.push_back({x.path, std::to_string(x.as_u64()), std::to_string(y.as_u64())});
            continue;
        }
        if (x.path == "headerVersion" || x.path == "signature") {
            if (x.as_u64() != y.as_u64()) d.push_back({x.path, std::to_string(x.as_u64()), std::to_string(y.as_u64())});
            continue;
        }
        if (ro == R_HEADER_AUTO || ro == R_DERIVED) continue;
        if (ro == R_NONSER) {
            // selectors must be recovered so that the active layout is the same
            if (!strcmp(x.path.c_str(), "reservedCanFdErrorFrame64")) continue;
            if (x.as_u64() != y.as_u64()) d.push_back({x.path, std::to_string(x.as_u64()), std::to_string(y.as_u64())});
            continue;
        }
        if (!active(a, x)) continue;
        if (ro == R_LEN) {
            if (!check_lengths) continue;
            for (auto & l : LENS) if (!strcmp(l.cls, a.ci->name) && x.path == l.len) {
                const Field & c = a.get(l.cont);
                if (!active(a, c)) break;
                uint64_t expect = c.nbytes() / l.unit;
                uint64_t mask = x.elem >= 8 ? ~0ULL : ((1ULL << (8 * x.elem)) - 1);
                if ((expect & mask) != y.as_u64()) d.push_back({x.path + "(derived)", std::to_string(expect), std::to_string(y.as_u64())});
            }
            continue;
        }
        if (x.variable()) {
            if (x.nbytes() != y.nbytes() || (x.nbytes() && memcmp(x.data(), y.data(), x.nbytes())))
                d.push_back({x.path, vr::hex(x.data(), x.nbytes(), 24) + "/" + std::to_string(x.count()),
                             vr::hex(y.data(), y.nbytes(), 24) + "/" + std::to_string(y.count())});
        } else {
            if (memcmp(x.ptr, y.ptr, x.elem * x.n))
                d.push_back({x.path, vr::hex((const uint8_t *)x.ptr, x.elem * x.n), vr::hex((const uint8_t *)y.ptr, y.elem * y.n)});
        }
    }
    return d;
}

inline std::string describe(const Obj & ob, size_t maxlen = 600) {
    std::ostringstream s;
    s << ob.ci->name << "{";
    for (auto & f : ob.f) {
        if (f.path == "signature" || f.path == "headerSize") continue;
        if (f.variable()) s << f.path << "=#" << f.count() << ":" << vr::hex(f.data(), f.nbytes(), 8) << ",";
        else if (f.kind == vr::SCALAR) s << f.path << "=" << f.as_u64() << ",";
        else s << f.path << "=" << vr::hex((const uint8_t *)f.ptr, f.elem * f.n, 8) << ",";
        if ((size_t)s.tellp() > maxlen) { s << "..."; break; }
    }
    s << "}";
    return s.str();
}

// shape signature used for "distinct non-trivial" accounting: class + sizes of containers mod 4 + selectors
inline std::string shape(const Obj & ob) {
    std::ostringstream s;
    s << ob.ci->name;
    for (auto & f : ob.f) {
        Role ro = role(ob, f);
        if (f.variable()) s << ":" << (f.count() == 0 ? 0 : 1 + f.nbytes() % 4);
        else if (ro == R_NONSER && f.kind == vr::SCALAR) s << ":s" << f.as_u64();
    }
    if (!strcmp(ob.ci->name, "SerialEvent")) s << ":f" << (ob.u("flags") & 12);
    if (!strcmp(ob.ci->name, "CanErrorFrame")) s << ":l" << (ob.u("length") > 0);
    if (!strcmp(ob.ci->name, "CanFdMessage64")) s << ":x" << static_cast<CanFdMessage64 *>(ob.o)->hasExtData();
    if (!strcmp(ob.ci->name, "CanFdErrorFrame64")) s << ":x" << static_cast<CanFdErrorFrame64 *>(ob.o)->hasExtData();
    if (!strcmp(ob.ci->name, "EnvironmentVariable") || !strcmp(ob.ci->name, "J1708Message")) s << ":t" << (unsigned)ob.o->objectType;
    return s.str();
}

}
