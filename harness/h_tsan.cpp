// C11 leg A: native-thread stress for ThreadSanitizer (no schedule controller: TSan intercepts the same symbols).
//   tsan <seed> <from> <to>
// The application scribbles on and deletes every object the instant read() returns, never touches an object after
// write(), and polls the documented public observers between calls; pacing profiles vary the relative speed.
#include <Vector/BLF.h>
#include <sstream>
#include <thread>
#include "hcommon.h"
#include "memfile.h"
#include "rng.h"
#include "twin.h"
#include "watchdog.h"

using namespace Vector::BLF;

static thread_local volatile uint64_t sink;     // per application thread: two sessions may run at once
static void busy(Rng & r, int profile) {
    uint32_t n;
    switch (profile) { case 0: n = 0; break; case 1: n = r.below(50); break; case 2: n = 200 + r.below(3000); break; case 3: n = r.chance(1, 8) ? 20000 : 0; break; case 4: n = r.below(400); break; default: n = r.chance(1, 2) ? 0 : 5000; }
    uint64_t x = 1; for (uint32_t i = 0; i < n; i++) x = x * 6364136223846793005ULL + 1442695040888963407ULL; sink = x;
}
static void poll(File & f, bool all) {
    uint64_t a = f.currentObjectCount; a += f.eof(); a += f.good(); a += f.is_open(); a += f.defaultLogContainerSize();
    if (all) a += f.currentUncompressedFileSize;
    sink = a;
}

struct SessOut { long objects, polls; std::string cfg; };
static SessOut one_session(uint64_t seed, long idx, const std::string & path) {
    long objects = 0, polls = 0;
        Rng r(Rng::mix(seed ^ 0xC11, (uint64_t)idx));
        int kind = (int)(idx % 4);            // 0 read all, 1 read k then close, 2 write, 3 write then destroy
        int profile = (int)((idx / 4) % 6);
        bool tiny = r.chance(1, 2);
        uint32_t C = tiny ? (16u << r.below(6)) : (r.chance(1, 2) ? 0x20000 : 4096);
        int level = r.chance(1, 2) ? 0 : 1 + r.below(9);
        int n = 20 + r.below(tiny ? 60 : 400);
        std::vector<long> sizes; for (int i = 0; i < n; i++) sizes.push_back(r.chance(1, 3) ? -1 : r.chance(1, 3) ? -2 : (long)r.below(tiny ? 300 : 3000));   // -2: LinMessage2 in a shorter layout version
        std::ostringstream cfg; cfg << "kind=" << kind << " profile=" << profile << " C=" << C << " level=" << level << " n=" << n << " tiny=" << tiny;
        if (kind < 2) {
            twin::Bytes st;
            for (int i = 0; i < n; i++) {
                twin::Bytes o;
                if (sizes[i] == -2) { LinMessage2 m; m.apiMajor = 1 + i % 2; m.objectTimeStamp = i; MemFile mf; m.write(mf); o = mf.buf; }
                else o = sizes[i] < 0 ? twin::can_message(1000 + i) : twin::app_text(1000 + i, (size_t)sizes[i]);
                st.insert(st.end(), o.begin(), o.end());
            }
            twin::save(path, twin::wrap(st, C, level));
            File f;
            if (tiny) f.verifSetLimits(1 + r.below(4), 64 << r.below(5));
            f.open(path.c_str(), std::ios_base::in);
            int k = kind == 0 ? n + 1 : (int)r.below(n + 1);
            for (int i = 0; i < k; i++) {
                poll(f, true); polls++;
                ObjectHeaderBase * o = f.read();
                if (!o) break;
                // scribble over every member we can reach, then free it at once
                o->objectType = ObjectType::UNKNOWN; o->objectSize = 0xdeadbeef; o->headerSize = 0; o->headerVersion = 0xffff; o->signature = 0;
                if (CanMessage * m = dynamic_cast<CanMessage *>(o)) { m->id = ~0u; m->data.fill(0xee); m->objectTimeStamp = ~0ULL; m->channel = 0xffff; m->dlc = 0xff; m->flags = 0xff; }
                else if (LinMessage2 * l = dynamic_cast<LinMessage2 *>(o)) { l->apiMajor = 9; l->data.fill(0xee); l->crc = 0xffff; l->objectTimeStamp = ~0ULL; }
                else if (AppText * t = dynamic_cast<AppText *>(o)) { t->source = ~0u; t->textLength = ~0u; std::fill(t->text.begin(), t->text.end(), '#'); t->text.clear(); t->objectTimeStamp = ~0ULL; }
                delete o; objects++;
                busy(r, profile);
            }
            poll(f, true);
            f.close();
            poll(f, true);
        } else {
            File * f = new File;
            if (tiny) f->verifSetLimits(1 + r.below(4), 64 << r.below(5));
            bool late = r.chance(1, 3);     // compression level configured after open(), before the first write()
            f->compressionLevel = late ? 3 : level; f->setDefaultLogContainerSize(C); f->writeRestorePoints = r.chance(1, 2);
            f->open(path.c_str(), std::ios_base::out);
            if (late) { busy(r, 2); f->compressionLevel = level; }
            bool resize = r.chance(1, 3);     // the container size is set again after open() and half-way through (the setters are public and may be called at any time)
            if (resize) f->setDefaultLogContainerSize(C);
            for (int i = 0; i < n; i++) {
                if (resize && i == n / 2) f->setDefaultLogContainerSize(C);
                ObjectHeaderBase * o;
                if (sizes[i] == -2) { LinMessage2 * l = new LinMessage2; l->apiMajor = 1 + i % 2; l->objectTimeStamp = i; o = l; }
                else if (sizes[i] < 0) { CanMessage * m = new CanMessage; m->id = i; m->objectTimeStamp = i; o = m; } else { AppText * t = new AppText; t->source = i; t->text.assign((size_t)sizes[i], 'w'); o = t; }
                f->write(o);       // never referenced again
                poll(*f, true); polls++; objects++;
                busy(r, profile);
            }
            if (kind == 2) { f->close(); poll(*f, true); }
            delete f;
        }
    SessOut so; so.objects = objects; so.polls = polls; so.cfg = cfg.str(); return so;
}

int main(int argc, char ** argv) {
    hc::out_init();
    if (argc < 5) return 2;
    uint64_t seed = strtoull(argv[2], nullptr, 0); long from = atol(argv[3]), to = atol(argv[4]);
    const char * tmp = getenv("VERIF_TMP"); std::string path = std::string(tmp ? tmp : "/dev/shm") + "/tsan." + std::to_string(getpid()) + ".blf";
    wd::start();
    long sessions = 0, objects = 0, polls = 0, two_at_once = 0; std::string sample;
    for (long idx = from; idx < to; idx++) {
        hc::begin_case(std::to_string(idx));
        wd::arm(120, "tsan-session");
        // every fourth case: two independent sessions (two files, two application threads) at the same time
        SessOut so;
        if (idx % 16 >= 4 && idx % 16 < 8) { SessOut so2; std::thread t([&] { so2 = one_session(seed, idx + 1000000 + (idx / 16) % 4, path + ".b"); });   /* every kind gets a partner of every kind */ so = one_session(seed, idx, path); t.join(); objects += so2.objects; polls += so2.polls; two_at_once++; unlink((path + ".b").c_str()); }
        else so = one_session(seed, idx, path);
        objects += so.objects; polls += so.polls;
        std::ostringstream cfg; cfg << so.cfg;
        wd::note(so.cfg.c_str());
        sessions++;
        if (sample.empty()) sample = cfg.str();
        wd::disarm();
    }
    unlink(path.c_str());
    std::ostringstream o; o << "{\"sessions\":" << sessions << ",\"objects\":" << objects << ",\"observer_polls\":" << polls << ",\"cases_with_two_sessions_at_once\":" << two_at_once << ",\"samples\":[" << hc::jstr(sample) << "]}";
    hc::stat(o.str());
    return 0;
}
