// Stateless systematic schedule exploration with preemption bounding (CHESS style) on top of the schedule controller:
// the session is executed again and again; every execution follows a recorded prefix of scheduling decisions and then
// the non-preemptive default (keep running the current thread while it is enabled, otherwise the lowest enabled id).
// After each execution the deepest decision with an untried alternative that stays within the preemption bound is
// flipped. When the stack is empty the space of schedules with <= bound preemptions has been covered completely
// (for a session that is deterministic given its schedule).
#pragma once
#include <cstdint>
#include <vector>
#include "vsched.h"
namespace dfs {
struct Point { std::vector<int> alts; size_t pick; int current; bool current_enabled; int preempt_before; };
static std::vector<Point> stack;     // decisions of the current execution
static size_t depth;
static int bound;
static uint64_t executions, points_total, max_depth;
static bool truncated;               // exploration budget exhausted (not exhaustive)

inline bool is_preemption(const Point & p, size_t pick) { return p.current_enabled && p.alts[pick] != p.current; }

static int choose(int nc, const int * ids, int current, int current_enabled) {
    if (depth < stack.size()) {      // follow the prefix
        Point & p = stack[depth++];
        // the program is deterministic given the schedule: the same alternatives must show up again
        if ((int)p.alts.size() != nc) { p.alts.assign(ids, ids + nc); if (p.pick >= p.alts.size()) p.pick = 0; }
        return p.alts[p.pick];
    }
    Point p; p.alts.assign(ids, ids + nc); p.current = current; p.current_enabled = current_enabled != 0;
    p.preempt_before = stack.empty() ? 0 : stack.back().preempt_before + (is_preemption(stack.back(), stack.back().pick) ? 1 : 0);
    // default: no preemption
    p.pick = 0;
    if (current_enabled) for (int i = 0; i < nc; i++) if (ids[i] == current) p.pick = (size_t)i;
    // order alternatives so that the default comes first: rotate
    std::swap(p.alts[0], p.alts[p.pick]); p.pick = 0;
    stack.push_back(p); depth++;
    return stack.back().alts[0];
}

inline void begin(int preemption_bound) { stack.clear(); depth = 0; bound = preemption_bound; executions = 0; points_total = 0; max_depth = 0; truncated = false; sched_set_chooser(choose); }
inline void start_execution() { depth = 0; }
// returns true if another execution is needed
inline bool next_execution(uint64_t max_executions) {
    executions++; points_total += depth; if (depth > max_depth) max_depth = depth;
    stack.resize(depth);            // decisions beyond what this execution reached do not exist
    while (!stack.empty()) {
        Point & p = stack.back();
        size_t nxt = p.pick + 1;
        while (nxt < p.alts.size()) {
            int cost = p.preempt_before + (p.current_enabled && p.alts[nxt] != p.current ? 1 : 0);
            if (cost <= bound) break;
            nxt++;
        }
        if (nxt < p.alts.size()) { p.pick = nxt; break; }
        stack.pop_back();
    }
    if (stack.empty()) return false;
    if (executions >= max_executions) { truncated = true; return false; }
    return true;
}
inline void end() { sched_set_chooser(nullptr); }
}
