// Schedule controller (DESIGN 3.6): the harness executable defines the pthread primitives that std::mutex,
// std::condition_variable and std::thread are built on; ELF interposition routes the library's calls here.
// Serial mode: exactly one session thread runs at a time; every interposed call is a scheduling point; the controller
// models mutex ownership, condition wait sets and thread liveness, so "no thread enabled and not all finished" is an
// exact deadlock condition, independent of time. Threads outside a session pass straight through to libc.
#include "vsched.h"
#include <cxxabi.h>
#include <dlfcn.h>
#include <execinfo.h>
#include <pthread.h>
#include <semaphore.h>
#include <time.h>
#include <unistd.h>
#include <atomic>
#include <cstdio>
#include <cstdlib>
#include <cstring>
#include <string>

namespace {
typedef int (*mlock_t)(pthread_mutex_t *);
typedef int (*cwait_t)(pthread_cond_t *, pthread_mutex_t *);
typedef int (*ctwait_t)(pthread_cond_t *, pthread_mutex_t *, const struct timespec *);
typedef int (*ccwait_t)(pthread_cond_t *, pthread_mutex_t *, clockid_t, const struct timespec *);
typedef int (*csig_t)(pthread_cond_t *);
typedef int (*create_t)(pthread_t *, const pthread_attr_t *, void * (*)(void *), void *);
typedef int (*join_t)(pthread_t, void **);
typedef int (*cgt_t)(clockid_t, struct timespec *);
mlock_t r_lock, r_unlock, r_trylock;
cwait_t r_wait; ctwait_t r_twait; ccwait_t r_cwait; csig_t r_signal, r_bcast; create_t r_create; join_t r_join; cgt_t r_cgt;
std::atomic<bool> resolved{false};
void resolve() {
    if (resolved.load(std::memory_order_acquire)) return;
    r_lock = (mlock_t)dlsym(RTLD_NEXT, "pthread_mutex_lock"); r_unlock = (mlock_t)dlsym(RTLD_NEXT, "pthread_mutex_unlock");
    r_trylock = (mlock_t)dlsym(RTLD_NEXT, "pthread_mutex_trylock");
    r_wait = (cwait_t)dlsym(RTLD_NEXT, "pthread_cond_wait"); r_twait = (ctwait_t)dlsym(RTLD_NEXT, "pthread_cond_timedwait");
    r_cwait = (ccwait_t)dlsym(RTLD_NEXT, "pthread_cond_clockwait");
    r_signal = (csig_t)dlsym(RTLD_NEXT, "pthread_cond_signal"); r_bcast = (csig_t)dlsym(RTLD_NEXT, "pthread_cond_broadcast");
    r_create = (create_t)dlsym(RTLD_NEXT, "pthread_create"); r_join = (join_t)dlsym(RTLD_NEXT, "pthread_join");
    r_cgt = (cgt_t)dlsym(RTLD_NEXT, "clock_gettime");
    resolved.store(true, std::memory_order_release);
}
__attribute__((constructor(101))) void init_real() { resolve(); }

enum St { RUNNABLE, WANT_MUTEX, WAIT_COND, WANT_JOIN, FINISHED };
const char * stname[] = {"RUNNABLE", "WANT_MUTEX", "WAIT_COND", "WANT_JOIN", "FINISHED"};
struct Th {
    int id; sem_t sem; St st; void * obj; void * obj2; pthread_t pt; void * (*fn)(void *); void * arg;
    void * bt[32]; int nbt; long prio; bool timed; bool timedout; char site[96]; long long deadline_ns; clockid_t clk; int hold;
};
const int MAXT = 32;
Th * T[MAXT]; int nT = 0;
__thread Th * self = nullptr;
std::atomic<bool> active{false};
pthread_mutex_t G = PTHREAD_MUTEX_INITIALIZER;   // real mutex protecting controller state (never held while parked)
struct MOwn { pthread_mutex_t * m; int owner; };
MOwn own[512]; int nown = 0;
int & owner_of(pthread_mutex_t * m) {
    for (int i = 0; i < nown; i++) if (own[i].m == m) return own[i].owner;
    if (nown >= 512) { fputs("HARNESS: sched mutex table full\n", stderr); _exit(2); }
    own[nown].m = m; own[nown].owner = -1; return own[nown++].owner;
}
uint64_t rng; int strategy, sparam; uint64_t steps, switches, sig, budget = 0; int spurious = 0, timeouts = 0, wake_delay = 1;
uint64_t change_points[8]; int nchange = 0;
// virtual time: session threads see real time + voff_ns; an injected timeout moves the clock past the waiter's deadline,
// so that library code which re-checks the clock after a timed wait (libstdc++ does) really sees the timeout
std::atomic<long long> voff_ns{0};
long long real_now_ns(clockid_t c) { struct timespec ts; if (!r_cgt || r_cgt(c, &ts)) return 0; return (long long)ts.tv_sec * 1000000000LL + ts.tv_nsec; }
void expire(Th * t) { long long need = t->deadline_ns - (real_now_ns(t->clk) + voff_ns.load()) + 1000000; if (need > 0) voff_ns.fetch_add(need); }
int (*chooser)(int ncand, const int * cand_ids, int current_id, int current_enabled) = nullptr;   // systematic exploration: the harness decides
const size_t LOGMAX = 1 << 20;
uint8_t * slog = nullptr; size_t nlog = 0;
const uint8_t * replay_seq = nullptr; size_t replay_n = 0, replay_i = 0;
uint64_t rnd() { rng ^= rng << 13; rng ^= rng >> 7; rng ^= rng << 17; return rng; }

// ---- wait-site symbolisation --------------------------------------------------------------------------------------
struct SiteCache { void * addr; char name[96]; };
SiteCache scache[256]; int nscache = 0;
struct SiteCount { char name[96]; unsigned long n; };
SiteCount scount[64]; int nscount = 0;

void canon(const char * dem, char * out, size_t n) {
    // "Vector::BLF::UncompressedFile::write(std::shared_ptr<...> const&)" -> "UncompressedFile::write(container)"
    std::string s = dem;
    size_t p = s.find("Vector::BLF::");
    if (p == std::string::npos) { out[0] = 0; return; }
    s = s.substr(p + 13);
    // cut at the parameter list of the outermost function
    std::string name; int depth = 0; size_t i = 0;
    for (; i < s.size(); i++) {
        char c = s[i];
        if (c == '<') depth++; else if (c == '>') depth--; else if (c == '(' && depth == 0) break;
        if (depth == 0 && c != '>') name += c;
    }
    std::string params = i < s.size() ? s.substr(i) : "";
    size_t close = params.find(')');
    if (close != std::string::npos) params = params.substr(0, close + 1);
    if (name == "UncompressedFile::write") name += params.find("shared_ptr") != std::string::npos ? "(container)" : "(bytes)";
    snprintf(out, n, "%s", name.c_str());
}

const char * site_of(void * const * bt, int nbt) {
    for (int k = 0; k < nbt; k++) {
        for (int i = 0; i < nscache; i++) if (scache[i].addr == bt[k]) { if (scache[i].name[0]) return scache[i].name; goto next; }
        {
            Dl_info di; char nm[96]; nm[0] = 0;
            if (dladdr(bt[k], &di) && di.dli_sname) {
                int status = 0; char * dem = abi::__cxa_demangle(di.dli_sname, nullptr, nullptr, &status);
                if (status == 0 && dem) { if (strstr(dem, "Vector::BLF::")) canon(dem, nm, sizeof nm); }
                free(dem);
            }
            if (nscache < 256) { scache[nscache].addr = bt[k]; snprintf(scache[nscache].name, 96, "%s", nm); nscache++; if (nm[0]) return scache[nscache - 1].name; }
            else if (nm[0]) { static char tmp[96]; snprintf(tmp, 96, "%s", nm); return tmp; }
        }
next:;
    }
    return "?";
}

void count_site(const char * s) {
    for (int i = 0; i < nscount; i++) if (!strcmp(scount[i].name, s)) { scount[i].n++; return; }
    if (nscount < 64) { snprintf(scount[nscount].name, 96, "%s", s); scount[nscount].n = 1; nscount++; }
}

bool enabled(Th * t) {
    switch (t->st) {
    case RUNNABLE: return true;
    case WANT_MUTEX: return owner_of((pthread_mutex_t *)t->obj) < 0;
    case WAIT_COND: return false;
    case WANT_JOIN: return ((Th *)t->obj)->st == FINISHED;
    default: return false;
    }
}

void default_violation(const char * kind, const char * key, const char * report) {
    std::string r = report; for (auto & c : r) if (c == '\n') c = '|';
    printf("@viol %s:%s :: %s\n", kind, key, r.c_str()); fflush(stdout);
    fputs(report, stderr); fflush(stderr);
    _exit(42);
}

void report(const char * kind) {
    static char buf[32768]; int n = 0;
    n += snprintf(buf + n, sizeof buf - n, "%s after %lu steps, %lu switches, strategy %d/%d\n", kind, (unsigned long)steps, (unsigned long)switches, strategy, sparam);
    std::string sites[MAXT]; int ns = 0;
    for (int i = 0; i < nT; i++) {
        Th * t = T[i];
        const char * s = (t->st == RUNNABLE || t->st == FINISHED) ? "" : site_of(t->bt, t->nbt);
        n += snprintf(buf + n, sizeof buf - n, " thread %d: %s %s\n", t->id, stname[t->st], s);
        if (t->st != FINISHED && t->st != RUNNABLE) {
            sites[ns++] = std::string(t->st == WAIT_COND ? "wait@" : t->st == WANT_MUTEX ? "lock@" : "join@") + s;
            char ** sym = backtrace_symbols(t->bt, t->nbt);
            for (int k = 0; sym && k < t->nbt && k < 14; k++) {
                const char * lp = strchr(sym[k], '('); const char * pl = lp ? strchr(lp, '+') : nullptr;
                if (lp && pl && pl > lp + 1) {
                    std::string mangled(lp + 1, pl - lp - 1); int status = 0; char * dem = abi::__cxa_demangle(mangled.c_str(), nullptr, nullptr, &status);
                    n += snprintf(buf + n, sizeof buf - n, "    %.200s\n", status == 0 && dem ? dem : mangled.c_str()); free(dem);
                } else n += snprintf(buf + n, sizeof buf - n, "    %.200s\n", sym[k]);
            }
            free(sym);
        }
    }
    for (int i = 0; i < ns; i++) for (int j = i + 1; j < ns; j++) if (sites[j] < sites[i]) std::swap(sites[i], sites[j]);
    std::string key; for (int i = 0; i < ns; i++) { if (i) key += "|"; key += sites[i]; }
    n += snprintf(buf + n, sizeof buf - n, " schedule (%zu choices): ", nlog);
    for (size_t i = (nlog > 400 ? nlog - 400 : 0); i < nlog && n < (int)sizeof buf - 8; i++) buf[n++] = (char)('0' + slog[i] % 10);
    buf[n++] = '\n'; buf[n] = 0;
    (sched_on_violation ? sched_on_violation : default_violation)(kind, key.c_str(), buf);
}

// called with G held by the running thread; self->st describes what it wants. Returns with G released and the
// calling thread scheduled again (or immediately, for a FINISHED thread).
void schedule() {
    Th * me = self; steps++;
    me->nbt = (me->st == RUNNABLE || me->st == FINISHED) ? 0 : backtrace(me->bt, 32);
    if (me->st == WAIT_COND) { const char * s = site_of(me->bt, me->nbt); snprintf(me->site, sizeof me->site, "%s", s); }
    if (budget && steps > budget) { budget = 0; report("livelock"); }
    // optional spurious wake-up of one condition waiter
    if (!chooser && spurious && (int)(rnd() % 1000) < spurious)
        for (int i = 0; i < nT; i++) if (T[i]->st == WAIT_COND && T[i] != me) { T[i]->st = WANT_MUTEX; T[i]->obj = T[i]->obj2; break; }
    // virtual time: a timed wait may time out at any scheduling point
    if (!chooser && timeouts && (int)(rnd() % 1000) < timeouts)
        for (int i = 0; i < nT; i++) if (T[i]->st == WAIT_COND && T[i]->timed && T[i] != me) { T[i]->st = WANT_MUTEX; T[i]->obj = T[i]->obj2; T[i]->timedout = true; expire(T[i]); break; }
    Th * cand[MAXT]; int nc = 0; bool allfin = true;
    for (int i = 0; i < nT; i++) { if (T[i]->st != FINISHED) allfin = false; if (enabled(T[i])) cand[nc++] = T[i]; }
    if (nc == 0) {
        if (allfin) { r_unlock(&G); return; }
        // timed waits may time out, but only when nothing else can run (so they never cause a false deadlock report)
        for (int i = 0; i < nT && nc == 0; i++) if (T[i]->st == WAIT_COND && T[i]->timed) { T[i]->st = WANT_MUTEX; T[i]->obj = T[i]->obj2; T[i]->timedout = true; expire(T[i]); if (enabled(T[i])) cand[nc++] = T[i]; }
        if (nc == 0) { report("deadlock"); r_unlock(&G); _exit(42); }
    }
    // injected delay: a thread held at its pre-wait point is passed over for a few decisions as long as somebody else can run
    {
        Th * free_[MAXT]; int nf = 0;
        for (int i = 0; i < nc; i++) if (cand[i]->hold <= 0) free_[nf++] = cand[i];
        for (int i = 0; i < nT; i++) if (T[i]->hold > 0) T[i]->hold--;
        if (nf > 0 && nf < nc) { for (int i = 0; i < nf; i++) cand[i] = free_[i]; nc = nf; }
    }
    Th * next = nullptr;
    if (chooser) {
        int ids[MAXT]; bool cur_en = false; for (int i = 0; i < nc; i++) { ids[i] = cand[i]->id; if (cand[i] == me) cur_en = true; }
        int want = chooser(nc, ids, me->id, cur_en ? 1 : 0);
        for (int i = 0; i < nc; i++) if (cand[i]->id == want) next = cand[i];
        if (!next) { fprintf(stderr, "HARNESS: chooser picked thread %d which is not enabled\n", want); _exit(2); }
    } else if (replay_seq && replay_i < replay_n) {
        int want = replay_seq[replay_i++];
        for (int i = 0; i < nc; i++) if (cand[i]->id == want) next = cand[i];
        if (!next) { fprintf(stderr, "HARNESS: replay diverged at choice %zu (thread %d not enabled)\n", replay_i - 1, want); _exit(2); }
    } else if (strategy == SCHED_PCT) {
        for (int k = 0; k < nchange; k++) if (steps == change_points[k]) me->prio = -(long)steps;   // demote the running thread
        next = cand[0]; for (int i = 1; i < nc; i++) if (cand[i]->prio > next->prio) next = cand[i];
    } else if (strategy == SCHED_STARVE) {
        Th * others[MAXT]; int no = 0; for (int i = 0; i < nc; i++) if (cand[i]->id != sparam) others[no++] = cand[i];
        next = no ? others[rnd() % no] : cand[0];
    } else if (strategy == SCHED_FAVOUR) {
        for (int i = 0; i < nc; i++) if (cand[i]->id == sparam) next = cand[i];
        if (!next || rnd() % 16 == 0) next = cand[rnd() % nc];
    } else next = cand[rnd() % nc];
    if (next->st == WANT_MUTEX) owner_of((pthread_mutex_t *)next->obj) = next->id;
    next->st = RUNNABLE; next->hold = 0;
    sig = sig * 1099511628211ULL ^ (uint64_t)(next->id + 1);
    if (slog && nlog < LOGMAX) slog[nlog++] = (uint8_t)next->id;
    if (next == me) { r_unlock(&G); return; }
    switches++;
    bool fin = (me->st == FINISHED);
    sem_post(&next->sem);
    r_unlock(&G);
    if (!fin) { while (sem_wait(&me->sem) != 0) {} }
}

Th * reg() {
    if (nT >= MAXT) { fputs("HARNESS: too many session threads\n", stderr); _exit(2); }
    Th * t = (Th *)calloc(1, sizeof(Th)); t->id = nT; sem_init(&t->sem, 0, 0); t->st = RUNNABLE; t->prio = 1000 + (long)(rnd() % 100000); T[nT++] = t; return t;
}
void * tramp(void * p) {
    Th * t = (Th *)p; self = t;
    while (sem_wait(&t->sem) != 0) {}
    void * r = t->fn(t->arg);
    r_lock(&G); t->st = FINISHED; schedule();
    self = nullptr;
    return r;
}

// ---- jitter mode -----------------------------------------------------------------------------------------------------
std::atomic<int> jitter_pm{0}; std::atomic<uint64_t> jitter_seed{0};
__thread uint64_t jrng = 0;
inline void jitter() {
    int pm = jitter_pm.load(std::memory_order_relaxed);
    if (!pm) return;
    if (!jrng) jrng = jitter_seed.fetch_add(0x9E3779B97F4A7C15ULL) | 1;
    jrng ^= jrng << 13; jrng ^= jrng >> 7; jrng ^= jrng << 17;
    if ((int)(jrng % 1000) < pm) {
        if ((jrng >> 20) % 4 == 0) { struct timespec ts = {0, (long)((jrng >> 24) % 200000)}; clock_nanosleep(CLOCK_MONOTONIC, 0, &ts, nullptr); }
        else sched_yield();
    }
}
inline bool controlled() { return active.load(std::memory_order_acquire) && self != nullptr; }
}

extern "C" {
void (*sched_on_violation)(const char *, const char *, const char *) = nullptr;

void sched_begin(uint64_t seed, int strat, int param) {
    resolve();
    rng = seed * 2654435761ULL + 88172645463325252ULL; rnd(); rnd();
    strategy = strat; sparam = param; nT = 0; nown = 0; steps = switches = 0; sig = 1469598103934665603ULL; nlog = 0; replay_i = 0;
    if (!slog) slog = (uint8_t *)malloc(LOGMAX);
    nchange = 0;
    if (strat == SCHED_PCT) { int d = param < 0 ? 0 : param > 8 ? 8 : param; for (int i = 0; i < d; i++) change_points[nchange++] = 1 + rnd() % 3000; }
    voff_ns.store(0);
    self = reg();
    active.store(true, std::memory_order_release);
}
int sched_end(void) {
    int left = 0;
    r_lock(&G);
    for (int i = 1; i < nT; i++) if (T[i]->st != FINISHED) left++;
    r_unlock(&G);
    active.store(false, std::memory_order_release);
    for (int i = 0; i < nT; i++) { if (T[i]->st == FINISHED || i == 0) { sem_destroy(&T[i]->sem); free(T[i]); } }   // unfinished threads keep their record
    nT = 0; self = nullptr; replay_seq = nullptr; replay_n = 0;
    return left;
}
void sched_set_budget(uint64_t s) { budget = s; }
void sched_set_spurious(int pm) { spurious = pm; }
void sched_set_chooser(int (*fn)(int, const int *, int, int)) { chooser = fn; }
void sched_set_timeouts(int pm) { timeouts = pm; }
void sched_set_wake_delay(int on) { wake_delay = on; }
void sched_replay(const uint8_t * seq, size_t n) { replay_seq = seq; replay_n = n; replay_i = 0; }
const uint8_t * sched_log(size_t * n) { *n = nlog; return slog; }
uint64_t sched_steps(void) { return steps; }
uint64_t sched_switches(void) { return switches; }
uint64_t sched_signature(void) { return sig; }
int sched_nthreads(void) { return nT; }
void sched_site_counts(char * buf, size_t n) {
    size_t o = 0; buf[0] = 0;
    for (int i = 0; i < nscount && o + 128 < n; i++) o += snprintf(buf + o, n - o, "%s\"%s\":%lu", i ? "," : "", scount[i].name, scount[i].n);
}
void sched_reset_site_counts(void) { nscount = 0; }
void sched_jitter(uint64_t seed, int pm) { jitter_seed = seed * 0x9E3779B97F4A7C15ULL + 1; jitter_pm = pm; }
int sched_blocked_in_wait(void) { int n = 0; for (int i = 0; i < nT; i++) if (T[i]->st == WAIT_COND) n++; return n; }
const char * sched_thread_site(int id) { return (id >= 0 && id < nT && T[id]->st == WAIT_COND) ? T[id]->site : ""; }

int pthread_mutex_lock(pthread_mutex_t * m) {
    if (!controlled()) { if (!resolved.load(std::memory_order_acquire)) resolve(); jitter(); return r_lock(m); }
    r_lock(&G); self->st = WANT_MUTEX; self->obj = m; schedule(); return 0;
}
int pthread_mutex_trylock(pthread_mutex_t * m) {
    if (!controlled()) { if (!resolved.load(std::memory_order_acquire)) resolve(); return r_trylock(m); }
    r_lock(&G); int & o = owner_of(m); int rc; if (o < 0) { o = self->id; rc = 0; } else rc = 16; r_unlock(&G); return rc;
}
int pthread_mutex_unlock(pthread_mutex_t * m) {
    if (!controlled()) { if (!resolved.load(std::memory_order_acquire)) resolve(); int rc = r_unlock(m); jitter(); return rc; }
    r_lock(&G); owner_of(m) = -1; self->st = RUNNABLE; schedule(); return 0;
}
static int do_wait(pthread_cond_t * c, pthread_mutex_t * m, bool timed, clockid_t clk = CLOCK_REALTIME, const struct timespec * abs = nullptr) {
    self->clk = clk; self->deadline_ns = abs ? (long long)abs->tv_sec * 1000000000LL + abs->tv_nsec : 0;
    // pre-wait window: the predicate has been evaluated, the mutex is still held, the thread is not yet in the wait set.
    // Threads that need this mutex stay blocked; a notifier that does not take it can run here - and its wake-up is lost,
    // exactly as on real hardware.
    r_lock(&G); self->st = RUNNABLE; if (!chooser && rnd() % 2) self->hold = 4 + (int)(rnd() % 16); schedule();
    r_lock(&G); self->hold = 0; owner_of(m) = -1; self->st = WAIT_COND; self->obj = c; self->obj2 = m; self->timed = timed; self->timedout = false;
    {   // count the blocked-at-site event
        void * bt[32]; int n = backtrace(bt, 32); count_site(site_of(bt, n));
    }
    schedule();
    return self->timedout ? 110 /* ETIMEDOUT */ : 0;
}
int pthread_cond_wait(pthread_cond_t * c, pthread_mutex_t * m) {
    if (!controlled()) { if (!resolved.load(std::memory_order_acquire)) resolve(); return r_wait(c, m); }
    return do_wait(c, m, false);
}
int pthread_cond_timedwait(pthread_cond_t * c, pthread_mutex_t * m, const struct timespec * ts) {
    if (!controlled()) { if (!resolved.load(std::memory_order_acquire)) resolve(); return r_twait(c, m, ts); }
    return do_wait(c, m, true, CLOCK_REALTIME, ts);
}
int pthread_cond_clockwait(pthread_cond_t * c, pthread_mutex_t * m, clockid_t clk, const struct timespec * ts) {
    if (!controlled()) { if (!resolved.load(std::memory_order_acquire)) resolve(); return r_cwait ? r_cwait(c, m, clk, ts) : r_twait(c, m, ts); }
    return do_wait(c, m, true, clk, ts);
}
static void wake(pthread_cond_t * c, bool all) {
    // wake in a PRNG-chosen order so that "which waiter wins" is explored as well
    int idx[MAXT], n = 0;
    for (int i = 0; i < nT; i++) if (T[i]->st == WAIT_COND && T[i]->obj == c) idx[n++] = i;
    if (!n) return;
    // a woken thread may be slow to get going (loaded machine): with probability 1/2 it is passed over for a while as long as
    // somebody else can run - mostly 4..19 decisions, one time in eight 40..239, long enough for the notifier to finish a
    // multi-step operation (consume and release everything that was buffered) before the waiter looks at the shared state again
    auto slow = [&](Th * t) { if (!chooser && wake_delay && rnd() % 2) t->hold = (rnd() % 8) ? 4 + (int)(rnd() % 16) : 40 + (int)(rnd() % 200); };
    if (all) { for (int k = 0; k < n; k++) { Th * t = T[idx[k]]; t->st = WANT_MUTEX; t->obj = t->obj2; slow(t); } }
    else { Th * t = T[idx[chooser ? 0 : rnd() % n]]; t->st = WANT_MUTEX; t->obj = t->obj2; slow(t); }
}
int pthread_cond_broadcast(pthread_cond_t * c) {
    if (!controlled()) { if (!resolved.load(std::memory_order_acquire)) resolve(); int rc = r_bcast(c); jitter(); return rc; }
    r_lock(&G); wake(c, true); self->st = RUNNABLE; schedule(); return 0;
}
int pthread_cond_signal(pthread_cond_t * c) {
    if (!controlled()) { if (!resolved.load(std::memory_order_acquire)) resolve(); int rc = r_signal(c); jitter(); return rc; }
    r_lock(&G); wake(c, false); self->st = RUNNABLE; schedule(); return 0;
}
int pthread_create(pthread_t * pt, const pthread_attr_t * a, void * (*fn)(void *), void * arg) {
    if (!controlled()) { if (!resolved.load(std::memory_order_acquire)) resolve(); return r_create(pt, a, fn, arg); }
    r_lock(&G); Th * t = reg(); t->fn = fn; t->arg = arg; r_unlock(&G);
    int rc = r_create(pt, a, tramp, t);
    r_lock(&G);
    if (rc != 0) t->st = FINISHED; else t->pt = *pt;
    self->st = RUNNABLE; schedule();
    return rc;
}
int clock_gettime(clockid_t clk, struct timespec * ts) {
    if (!resolved.load(std::memory_order_acquire)) resolve();
    int rc = r_cgt(clk, ts);
    if (rc == 0 && controlled() && (clk == CLOCK_MONOTONIC || clk == CLOCK_REALTIME)) {
        long long v = voff_ns.load(std::memory_order_relaxed);
        if (v) { long long t = (long long)ts->tv_sec * 1000000000LL + ts->tv_nsec + v; ts->tv_sec = t / 1000000000LL; ts->tv_nsec = t % 1000000000LL; }
    }
    return rc;
}
int pthread_join(pthread_t pt, void ** r) {
    if (!controlled()) { if (!resolved.load(std::memory_order_acquire)) resolve(); return r_join(pt, r); }
    r_lock(&G);
    Th * tg = nullptr; for (int i = 0; i < nT; i++) if (T[i]->fn && pthread_equal(T[i]->pt, pt)) tg = T[i];
    if (tg) { self->st = WANT_JOIN; self->obj = tg; schedule(); } else r_unlock(&G);
    return r_join(pt, r);
}
}
