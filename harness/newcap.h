// operator new with an allocation cap for sanitizer builds (where malloc itself cannot be interposed):
// requests above the cap throw std::bad_alloc, standing in for a memory-limited host. Define NEWCAP_IMPL in one TU.
#pragma once
#include <cstddef>
#include <cstdlib>
#include <new>
extern size_t g_new_cap;          // 0 = off
extern unsigned long g_new_cap_hits;
#ifdef NEWCAP_IMPL
size_t g_new_cap = 0;
unsigned long g_new_cap_hits = 0;
void * operator new(size_t n) { if (g_new_cap && n > g_new_cap) { __atomic_add_fetch(&g_new_cap_hits, 1, __ATOMIC_RELAXED); throw std::bad_alloc(); } void * p = malloc(n ? n : 1); if (!p) throw std::bad_alloc(); return p; }
void operator delete(void * p) noexcept { free(p); }
void operator delete(void * p, size_t) noexcept { free(p); }
void * operator new[](size_t n) { return operator new(n); }
void operator delete[](void * p) noexcept { free(p); }
void operator delete[](void * p, size_t) noexcept { free(p); }
#endif
