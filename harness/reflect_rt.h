// Runtime side of the generated reflection: a visitor interface and a flat field list.
#pragma once
#include <array>
#include <cstdint>
#include <cstdio>
#include <cstring>
#include <ios>
#include <string>
#include <type_traits>
#include <vector>

namespace vr {

struct Visitor {
    virtual ~Visitor() {}
    virtual void base(const char *) {}
    virtual void endbase() {}
    virtual void begin(const char *) {}
    virtual void end() {}
    virtual void scalar(const char * name, void * p, size_t size, bool isfloat, bool init) = 0;
    virtual void array(const char * name, void * p, size_t elem, size_t n, bool init) = 0;
    virtual void bytes(const char * name, std::vector<uint8_t> & v) = 0;
    virtual void str(const char * name, std::string & v) = 0;
    virtual void u16(const char * name, std::u16string & v) = 0;
    virtual void i64v(const char * name, std::vector<int64_t> & v) = 0;
    template<class T> typename std::enable_if<std::is_arithmetic<T>::value || std::is_enum<T>::value>::type
    f(const char * n, T & x, bool init) { scalar(n, &x, sizeof(T), std::is_floating_point<T>::value, init); }
    template<class T, size_t N> void f(const char * n, std::array<T, N> & x, bool init) { array(n, x.data(), sizeof(T), N, init); }
    void f(const char * n, std::vector<uint8_t> & x, bool) { bytes(n, x); }
    void f(const char * n, std::string & x, bool) { str(n, x); }
    void f(const char * n, std::u16string & x, bool) { u16(n, x); }
    void f(const char * n, std::vector<int64_t> & x, bool) { i64v(n, x); }
};

enum Kind { SCALAR, ARRAY, BYTES, STR, U16STR, I64VEC };

struct Field {
    std::string path;     // dotted path for nested members, e.g. general.dataLength
    std::string owner;    // record that declares it (innermost base), e.g. ObjectHeader
    Kind kind;
    void * ptr;           // address of the member (container object for variable kinds)
    size_t elem;          // element size
    size_t n;             // element count (fixed kinds)
    bool isfloat;
    bool init;            // has an in-class initialiser (hint only)
    bool variable() const { return kind >= BYTES; }
    // current payload as raw bytes
    const uint8_t * data() const {
        switch (kind) {
        case BYTES: return static_cast<std::vector<uint8_t>*>(ptr)->data();
        case STR: return reinterpret_cast<const uint8_t *>(static_cast<std::string *>(ptr)->data());
        case U16STR: return reinterpret_cast<const uint8_t *>(static_cast<std::u16string *>(ptr)->data());
        case I64VEC: return reinterpret_cast<const uint8_t *>(static_cast<std::vector<int64_t>*>(ptr)->data());
        default: return static_cast<const uint8_t *>(ptr);
        }
    }
    size_t count() const {
        switch (kind) {
        case BYTES: return static_cast<std::vector<uint8_t>*>(ptr)->size();
        case STR: return static_cast<std::string *>(ptr)->size();
        case U16STR: return static_cast<std::u16string *>(ptr)->size();
        case I64VEC: return static_cast<std::vector<int64_t>*>(ptr)->size();
        default: return n;
        }
    }
    size_t esize() const { return kind == STR || kind == BYTES ? 1 : kind == U16STR ? 2 : kind == I64VEC ? 8 : elem; }
    size_t nbytes() const { return count() * esize(); }
    void resize(size_t c) const {
        switch (kind) {
        case BYTES: static_cast<std::vector<uint8_t>*>(ptr)->resize(c); break;
        case STR: static_cast<std::string *>(ptr)->resize(c); break;
        case U16STR: static_cast<std::u16string *>(ptr)->resize(c); break;
        case I64VEC: static_cast<std::vector<int64_t>*>(ptr)->resize(c); break;
        default: break;
        }
    }
    uint8_t * wdata() const { return const_cast<uint8_t *>(data()); }
    uint64_t as_u64() const { uint64_t v = 0; memcpy(&v, ptr, elem < 8 ? elem : 8); return v; }
    void set_u64(uint64_t v) const { memcpy(ptr, &v, elem < 8 ? elem : 8); }
};

struct Collector : Visitor {
    std::vector<Field> fields;
    std::vector<std::string> prefix;
    std::vector<std::string> owners;
    std::string cur() const { std::string s; for (auto & p : prefix) { s += p; s += '.'; } return s; }
    void base(const char * n) override { owners.push_back(n); }
    void endbase() override { owners.pop_back(); }
    void begin(const char * n) override { prefix.push_back(n); }
    void end() override { prefix.pop_back(); }
    void add(const char * name, Kind k, void * p, size_t elem, size_t n, bool fl, bool init) {
        Field f; f.path = cur() + name; f.owner = owners.empty() ? "" : owners.back(); f.kind = k; f.ptr = p; f.elem = elem; f.n = n;
        f.isfloat = fl; f.init = init; fields.push_back(f);
    }
    void scalar(const char * name, void * p, size_t size, bool isfloat, bool init) override { add(name, SCALAR, p, size, 1, isfloat, init); }
    void array(const char * name, void * p, size_t elem, size_t n, bool init) override { add(name, ARRAY, p, elem, n, false, init); }
    void bytes(const char * name, std::vector<uint8_t> & v) override { add(name, BYTES, &v, 1, 0, false, true); }
    void str(const char * name, std::string & v) override { add(name, STR, &v, 1, 0, false, true); }
    void u16(const char * name, std::u16string & v) override { add(name, U16STR, &v, 2, 0, false, true); }
    void i64v(const char * name, std::vector<int64_t> & v) override { add(name, I64VEC, &v, 8, 0, false, true); }
};

inline std::string hex(const uint8_t * p, size_t n, size_t limit = 48) {
    static const char * d = "0123456789abcdef";
    std::string s;
    for (size_t i = 0; i < n && i < limit; i++) { s += d[p[i] >> 4]; s += d[p[i] & 15]; }
    if (n > limit) { char b[32]; snprintf(b, sizeof b, "..(%zu)", n); s += b; }
    return s;
}

}
