// Generated object sequences and session configurations shared by the file-level harness modes.
#pragma once
#include <sstream>
#include "memfile.h"
#include "objlib.h"

namespace sg {
using namespace Vector::BLF;
using ol::Obj;

struct Config {
    int level; uint32_t C; bool trailer; bool tiny_limits; long B; uint32_t Q;
    std::string str() const { std::ostringstream s; s << "level=" << level << " C=" << C << " trailer=" << trailer << " limits=" << (tiny_limits ? std::to_string(B) + "/" + std::to_string(Q) : "default"); return s.str(); }
};

static const uint32_t CSIZES[] = {1, 2, 3, 7, 16, 100, 4096, 0x1ffff, 0x20000, 0x20001, 1 << 20, 4 << 20};
static const int NCSIZES = sizeof CSIZES / sizeof CSIZES[0];

inline Config make_config(uint64_t seed, long k) {
    Rng r(Rng::mix(seed ^ 0xC0F1, (uint64_t)k));
    long cidx = ((k % 120) * 37) % 120;      // a permutation of level x container size, so that every shard sees every combination
    Config c; c.level = (int)(cidx % 10); c.C = CSIZES[(cidx / 10) % NCSIZES]; c.trailer = r.chance(1, 2);
    c.tiny_limits = r.chance(1, 3); c.B = 64 << r.below(5); c.Q = 1 + r.below(4);
    return c;
}

struct Seq {
    std::vector<ObjectHeaderBase *> objs;      // owned
    std::vector<const vr::ClassInfo *> cis;
    ~Seq() { for (auto * o : objs) delete o; }
    Seq() {}
    Seq(const Seq &) = delete; Seq & operator=(const Seq &) = delete;
};

// n objects drawn from the reflection registry, populated the way the API is used; unique id in objectTimeStamp
inline void make_sequence(Seq & s, uint64_t seed, long idx, int maxn, bool big, size_t byte_budget = 3u << 20) {
    Rng r(Rng::mix(seed ^ 0x5E0, (uint64_t)idx));
    int n;
    unsigned k = r.below(20);
    if (k == 0) n = 0; else if (k < 3) n = 1; else n = 1 + r.below(maxn);
    size_t bytes = 0;
    for (int i = 0; i < n; i++) {
        const vr::ClassInfo * ci = &vr::classes[r.below(vr::nclasses)];
        ObjectHeaderBase * o = ci->make();
        Obj ob(ci, o);
        ol::GenOpts g; g.big_payloads = big && bytes < byte_budget; g.max_len = bytes < byte_budget ? byte_budget - bytes : 0;
        if (r.chance(1, 30)) { /* default-constructed */ } else ol::randomise(ob, r, g);
        ob.get("objectTimeStamp").set_u64(0x1000000ULL + (uint64_t)i);
        for (auto & f : ob.f) if (f.variable()) bytes += f.nbytes();
        s.objs.push_back(o); s.cis.push_back(ci);
    }
}

inline std::vector<uint8_t> encode(ObjectHeaderBase * o, const vr::ClassInfo * ci) {
    ObjectHeaderBase * c = ci->clone(o); MemFile mf; c->write(mf); delete c; return mf.buf;
}

inline std::string describe_seq(const Seq & s, size_t limit = 6) {
    std::ostringstream o; o << s.objs.size() << " objects:";
    for (size_t i = 0; i < s.objs.size() && i < limit; i++) { Obj ob(s.cis[i], s.objs[i]); o << " " << ol::shape(ob); }
    return o.str();
}
}
