// C01/C05 beyond 4 GiB: one session that pushes more than 2^32 bytes of object data through the real pipeline
// (File -> ObjectQueue -> UncompressedFile -> CompressedFile and back), so that every stream position, size field
// and statistic crosses the 32-bit boundary. Payloads are highly compressible, the file on disk stays small.
//   big <seed> <case> <case+1>      case selects (level, container size, payload size, limits)
// Oracles: every object comes back (class, index, length, every payload byte); end-of-stream afterwards; the header of
// the finished file (read by the independent parser, container headers only) declares uncompressedFileSize == 144 +
// sum over containers (32 + declared inflated size), == the writer's and the reader's counters, and > 2^32;
// objectCount == N; the sum of the containers' inflated sizes == N * padded object size.
#include <Vector/BLF.h>
#include <fstream>
#include <sstream>
#include "hcommon.h"
#include "rng.h"
#include "twin.h"
#include "watchdog.h"

using namespace Vector::BLF;

static void fill(std::string & t, uint64_t seed, uint32_t i, size_t n) {
    t.assign(n, (char)(0x20 + (Rng::mix(seed, i) % 90)));
    // a few position-dependent bytes so that a shifted or repeated block cannot pass
    for (size_t k = 0; k < n; k += 4093) t[k] = (char)(0x20 + ((i * 31 + k / 4093) % 90));
    if (n >= 8) { uint64_t v = Rng::mix(seed ^ 0xB16, i); memcpy(&t[n - 8], &v, 8); }
}

int main(int argc, char ** argv) {
    hc::out_init();
    if (argc < 5) return 2;
    uint64_t seed = strtoull(argv[2], nullptr, 0); long from = atol(argv[3]), to = atol(argv[4]);
    const char * tmp = getenv("VERIF_TMP"); std::string path = std::string(tmp ? tmp : "/dev/shm") + "/big." + std::to_string(getpid()) + ".blf";
    wd::start();
    std::ostringstream samples; long sessions = 0; unsigned long long bytes_through = 0, objects = 0, maxpos = 0;
    for (long idx = from; idx < to; idx++) {
        hc::begin_case(std::to_string(idx));
        static const int levels[] = {1, 6, 1, 9};
        static const uint32_t conts[] = {0x20000, 4u << 20, 1000003, 0x20000};
        static const size_t pays[] = {999983, 3000017, 65521, 1048576};
        int sel = (int)((idx + 2) % 4);      // case 0 is the quickest configuration
        wd::arm(sel == 1 || sel == 2 ? 300 : 900, "big-session");
        int level = levels[sel]; uint32_t C = conts[sel]; size_t pay = pays[sel];
        unsigned long long total = (1ULL << 32) + (64ULL << 20) + (unsigned long long)(Rng::mix(seed, (uint64_t)idx) % (32u << 20));
        uint32_t N = (uint32_t)(total / pay) + 1;
        std::ostringstream cfg; cfg << "level=" << level << " C=" << C << " payload=" << pay << " N=" << N << " case=" << idx;
        wd::note(cfg.str().c_str());
        std::string ctx = " [" + cfg.str() + "]";
        uint64_t wsize = 0; uint32_t wcount = 0; uint32_t osz = 0;
        try {
            {
                File f; f.compressionLevel = level; f.setDefaultLogContainerSize(C);
                f.open(path.c_str(), std::ios_base::out);
                if (!f.is_open()) { fprintf(stderr, "HARNESS: cannot open %s\n", path.c_str()); return 2; }
                std::string t;
                for (uint32_t i = 0; i < N; i++) {
                    AppText * a = new AppText; a->source = i; a->objectTimeStamp = i; fill(t, seed, i, pay); a->text = t;
                    if (i == 0) { a->textLength = (uint32_t)pay; osz = a->calculateObjectSize(); }
                    f.write(a);
                }
                f.close();
                wsize = f.fileStatistics.uncompressedFileSize; wcount = f.fileStatistics.objectCount;
            }
            // independent look at the finished file: header + container headers only
            uint64_t hdr_us = 0, sum_inflated = 0, sum_framed = 144; uint32_t hdr_count = 0; uint64_t fsz = 0, hdr_fsz = 0; long ncont = 0;
            {
                std::ifstream in(path.c_str(), std::ios::binary); uint8_t h[144]; in.read((char *)h, 144);
                hdr_fsz = twin::get64(h + 16); hdr_us = twin::get64(h + 24); hdr_count = twin::get32(h + 32);
                in.seekg(0, std::ios::end); fsz = (uint64_t)in.tellg(); uint64_t pos = 144;
                while (pos + 32 <= fsz) {
                    uint8_t q[32]; in.seekg((std::streamoff)pos); in.read((char *)q, 32);
                    if (memcmp(q, "LOBJ", 4) != 0) { hc::viol("big:container-chain-broken", "at offset " + std::to_string(pos) + ctx); break; }
                    uint32_t o = twin::get32(q + 8), ty = twin::get32(q + 12), us = twin::get32(q + 24);
                    if (ty != 10) break;      // restore point / trailer objects end the chain of containers
                    sum_inflated += us; sum_framed += 32 + us; ncont++;
                    pos += o + o % 4;
                }
            }
            uint64_t padded = (uint64_t)osz + osz % 4;
            if (hdr_count != N || wcount != N) hc::viol("big:objectCount", "header " + std::to_string(hdr_count) + " writer " + std::to_string(wcount) + " written " + std::to_string(N) + ctx);
            if (hdr_fsz != fsz) hc::viol("big:fileSize", "header " + std::to_string(hdr_fsz) + " actual " + std::to_string(fsz) + ctx);
            if (sum_inflated != (uint64_t)N * padded) hc::viol("big:stream-length", "containers declare " + std::to_string(sum_inflated) + " inflated bytes, objects need " + std::to_string((uint64_t)N * padded) + ctx);
            if (hdr_us != sum_framed || wsize != sum_framed) hc::viol("big:uncompressedFileSize", "header " + std::to_string(hdr_us) + " writer " + std::to_string(wsize) + " containers " + std::to_string(sum_framed) + ctx);
            if (hdr_us <= (1ULL << 32)) { fprintf(stderr, "HARNESS: session did not cross 4 GiB\n"); return 2; }
            // read back
            {
                File f; f.open(path.c_str(), std::ios_base::in);
                if (!f.is_open()) hc::viol("big:cannot-open-own-file", ctx);
                std::string t; uint32_t i = 0; bool stop = false;
                while (!stop) {
                    ObjectHeaderBase * o = f.read();
                    if (!o) break;
                    AppText * a = dynamic_cast<AppText *>(o);
                    if (!a) { if (o->objectType == ObjectType::Unknown115) { delete o; continue; } hc::viol("big:class-changed", "object " + std::to_string(i) + " has type " + std::to_string((uint32_t)o->objectType) + ctx); stop = true; }
                    else {
                        fill(t, seed, i, pay);
                        if (a->source != i || a->objectTimeStamp != i) { hc::viol("big:object-order", "object " + std::to_string(i) + " carries index " + std::to_string(a->source) + " (stream position about " + std::to_string((uint64_t)i * padded) + ")" + ctx); stop = true; }
                        else if (a->text.size() != pay || a->textLength != pay) { hc::viol("big:payload-length", "object " + std::to_string(i) + " length " + std::to_string(a->text.size()) + ctx); stop = true; }
                        else if (a->text != t) { size_t k = 0; while (k < pay && a->text[k] == t[k]) k++; hc::viol("big:payload-bytes", "object " + std::to_string(i) + " differs at payload offset " + std::to_string(k) + " (stream position about " + std::to_string((uint64_t)i * padded + k) + ")" + ctx); stop = true; }
                        i++;
                    }
                    delete o;
                }
                if (!stop) {
                    if (i != N) hc::viol("big:objects-missing", "read " + std::to_string(i) + " of " + std::to_string(N) + " (stream position about " + std::to_string((uint64_t)i * padded) + ")" + ctx);
                    else if (f.good() || !f.eof()) hc::viol("big:flags-after-end", ctx);
                    uint64_t rsize = f.currentUncompressedFileSize; uint32_t rcount = f.currentObjectCount;
                    if (i == N && (rsize != sum_framed || rcount != N)) hc::viol("big:reader-counters", "reader counted " + std::to_string(rsize) + " bytes / " + std::to_string(rcount) + " objects, file has " + std::to_string(sum_framed) + " / " + std::to_string(N) + ctx);
                }
                f.close();
                objects += i;
            }
            bytes_through += sum_inflated; if (sum_framed > maxpos) maxpos = sum_framed;
            if (sessions == 0) samples << cfg.str() << ": " << ncont << " containers, " << sum_inflated << " inflated bytes, file " << fsz << " bytes";
        } catch (std::exception & e) { hc::viol("big:exception", std::string(e.what()) + ctx); }
        unlink(path.c_str());
        sessions++;
        wd::disarm();
    }
    std::ostringstream o; o << "{\"big_sessions\":" << sessions << ",\"big_objects\":" << objects << ",\"big_bytes_through_pipeline\":" << bytes_through << ",\"max_stream_position\":" << maxpos << ",\"big_samples\":[" << hc::jstr(samples.str()) << "]}";
    hc::stat(o.str());
    return 0;
}
