// protocol between harness workers and the python supervisor (stdout lines):
//   @case <id>          about to run case <id>
//   @viol <key> :: <text>
//   @stat <json>
#pragma once
#include <cstdio>
#include <cstdlib>
#include <cstring>
#include <string>
#include <dirent.h>
#include <time.h>
#include <unistd.h>
namespace hc {
// number of threads of this process, as the kernel sees them
inline int native_threads() { int n = 0; DIR * d = opendir("/proc/self/task"); if (!d) return -1; while (readdir(d)) n++; closedir(d); return n - 2; }
// a joined thread can linger in /proc for a moment while the kernel reaps it: only a count that STAYS different is a leak
inline bool threads_back_to(int base) { for (int i = 0; i < 500; i++) { if (native_threads() == base) return true; struct timespec ts = {0, 2000000}; nanosleep(&ts, nullptr); } return false; }
inline void out_init() { setvbuf(stdout, nullptr, _IOLBF, 0); }
inline void begin_case(const std::string & id) { printf("@case %s\n", id.c_str()); fflush(stdout); }
inline std::string clean(std::string s) { for (auto & c : s) if (c == '\n' || c == '\r') c = ' '; return s; }
inline void viol(const std::string & key, const std::string & text) {
    std::string k = key; for (auto & c : k) if (c == ' ' || c == '\n') c = '_';
    printf("@viol %s :: %s\n", k.c_str(), clean(text).c_str()); fflush(stdout);
}
inline void stat(const std::string & json) { printf("@stat %s\n", json.c_str()); fflush(stdout); }
inline std::string jstr(const std::string & s) {
    std::string o = "\"";
    for (unsigned char c : s) { if (c == '"' || c == '\\') { o += '\\'; o += (char)c; } else if (c < 32 || c > 126) { char b[8]; snprintf(b, 8, "\\u%04x", c); o += b; } else o += (char)c; }
    return o + "\"";
}
#ifdef VERIF_COV_BUILD
extern "C" void __gcov_dump(void);
inline void cov_flush() { __gcov_dump(); }      // reach audit builds only: a worker that leaves through _exit still records what it ran
#else
inline void cov_flush() {}
#endif
inline uint64_t env_u64(const char * n, uint64_t d) { const char * v = getenv(n); return v && *v ? strtoull(v, nullptr, 0) : d; }
}
