// protocol between harness workers and the python supervisor (stdout lines):
//   @case <id>          about to run case <id>
//   @viol <key> :: <text>
//   @stat <json>
#pragma once
#include <cstdio>
#include <cstdlib>
#include <cstring>
#include <string>
#include <unistd.h>
namespace hc {
inline void out_init() { setvbuf(stdout, nullptr, _IOLBF, 0); }
inline void begin_case(const std::string & id) { printf("@case %s\n", id.c_str()); fflush(stdout); }
inline std::string clean(std::string s) { for (auto & c : s) if (c == '\n' || c == '\r') c = ' '; return s; }
inline void viol(const std::string & key, const std::string & text) {
    std::string k = key; for (auto & c : k) if (c == ' ' || c == '\n') c = '_';
    printf("@viol %s :: %s\n", k.c_str(), clean(text).c_str()); fflush(stdout);
}
inline void stat(const std::string & json) { printf("@stat %s\n", json.c_str()); fflush(stdout); }
inline std::string jstr(const std::string & s) {
    std::string o = "\"";
    for (unsigned char c : s) { if (c == '"' || c == '\\') { o += '\\'; o += (char)c; } else if (c < 32 || c > 126) { char b[8]; snprintf(b, 8, "\\u%04x", c); o += b; } else o += (char)c; }
    return o + "\"";
}
inline uint64_t env_u64(const char * n, uint64_t d) { const char * v = getenv(n); return v && *v ? strtoull(v, nullptr, 0) : d; }
}
