// MemFile: the library's public AbstractFile interface over a byte vector, with strict iostream-like state
// (sticky fail/eof) and a trace of every write (output offset, length, source address) and read.
#pragma once
#include <Vector/BLF.h>
#include <algorithm>
#include <cstring>
#include <vector>
struct MemFile : Vector::BLF::AbstractFile {
    struct Chunk { size_t off; size_t n; const void * src; };
    std::vector<uint8_t> buf;
    std::streamsize g = 0, gc = 0;
    bool failb = false, eofb = false;
    bool trace = false;
    std::vector<Chunk> wr;      // write trace
    std::vector<Chunk> rd;      // read trace (input offset, bytes delivered, destination)
    size_t nreads = 0, nseeks = 0;
    long long min_g = 0;        // lowest get position ever reached (negative = seek before start)
    std::streamsize gcount() const override { return gc; }
    void read(char * s, std::streamsize n) override {
        nreads++;
        if (failb) { gc = 0; return; }
        if (g < 0) { failb = true; gc = 0; return; }
        if (trace) rd.push_back(Chunk{(size_t)g, (size_t)std::max<std::streamsize>(0, std::min<std::streamsize>(n, (std::streamsize)buf.size() - g)), s});
        std::streamsize avail = (std::streamsize)buf.size() - g;
        if (avail < 0) avail = 0;
        if (n > avail) {
            gc = avail;
            if (avail > 0) memcpy(s, buf.data() + g, (size_t)avail);
            g += avail; failb = true; eofb = true;
        } else {
            if (n > 0) memcpy(s, buf.data() + g, (size_t)n);   // memcpy into the caller's pointer: ASan checks the destination
            g += n; gc = n;
        }
    }
    std::streampos tellg() override { return failb ? std::streampos(-1) : std::streampos(g); }
    void seekg(std::streamoff off, const std::ios_base::seekdir way = std::ios_base::cur) override {
        nseeks++;
        if (failb) return;
        if (way == std::ios_base::beg) g = off; else g += off;
        if (g < min_g) min_g = g;
    }
    void write(const char * s, std::streamsize n) override {
        if (n < 0) { failb = true; return; }
        if (trace) wr.push_back(Chunk{buf.size(), (size_t)n, s});
        if (n > 0) { size_t o = buf.size(); buf.resize(o + (size_t)n); memcpy(buf.data() + o, s, (size_t)n); }  // ASan checks the source range
    }
    std::streampos tellp() override { return (std::streamoff)buf.size(); }
    bool good() const override { return !failb; }
    bool eof() const override { return eofb; }
};
