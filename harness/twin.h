// C++ twin of py/blf.py's writer and container parser: builds BLF files without the library (raw structs + zlib),
// cross-checked against the Python implementation by bin/check selftest. Used to make inputs for in-process drivers.
#pragma once
#include <zlib.h>
#include <cstdint>
#include <cstring>
#include <fstream>
#include <string>
#include <vector>

namespace twin {
typedef std::vector<uint8_t> Bytes;
inline void put16(Bytes & b, uint16_t v) { b.push_back(v & 0xff); b.push_back(v >> 8); }
inline void put32(Bytes & b, uint32_t v) { for (int i = 0; i < 4; i++) b.push_back((v >> (8 * i)) & 0xff); }
inline void put64(Bytes & b, uint64_t v) { for (int i = 0; i < 8; i++) b.push_back((v >> (8 * i)) & 0xff); }
inline void putsig(Bytes & b) { b.push_back('L'); b.push_back('O'); b.push_back('B'); b.push_back('J'); }
inline uint32_t get32(const uint8_t * p) { return p[0] | (p[1] << 8) | (p[2] << 16) | ((uint32_t)p[3] << 24); }
inline uint16_t get16(const uint8_t * p) { return p[0] | (p[1] << 8); }
inline uint64_t get64(const uint8_t * p) { return get32(p) | ((uint64_t)get32(p + 4) << 32); }

// CAN_MESSAGE (type 1), 48 bytes; uid in the id field and in the time stamp
inline Bytes can_message(uint32_t uid) {
    Bytes b; putsig(b); put16(b, 32); put16(b, 1); put32(b, 48); put32(b, 1);
    put32(b, 1); put16(b, 0); put16(b, 0); put64(b, uid);
    put16(b, 1); b.push_back(0); b.push_back(8); put32(b, uid);
    uint64_t d = uid * 0x9E3779B97F4A7C15ULL; put64(b, d);
    return b;
}
// APP_TEXT (type 65): ObjectHeader + source, reserved, textLength, reserved + text + pad
inline Bytes app_text(uint32_t uid, size_t len) {
    Bytes b; uint32_t osz = 32 + 16 + (uint32_t)len;
    putsig(b); put16(b, 32); put16(b, 1); put32(b, osz); put32(b, 65);
    put32(b, 1); put16(b, 0); put16(b, 0); put64(b, uid);
    put32(b, uid); put32(b, 0); put32(b, (uint32_t)len); put32(b, 0);
    for (size_t i = 0; i < len; i++) b.push_back((uint8_t)('A' + (uid * 7 + i * 13) % 53));
    for (uint32_t i = 0; i < osz % 4; i++) b.push_back(0);
    return b;
}
inline Bytes unknown_object(uint32_t type, uint32_t size, uint8_t fill = 0xEE) {
    Bytes b; putsig(b); put16(b, 16); put16(b, 1); put32(b, size); put32(b, type);
    for (uint32_t i = 16; i < size; i++) b.push_back(fill);
    return b;
}
inline Bytes file_header(uint64_t fileSize = 0, uint64_t usize = 0, uint32_t count = 0, uint64_t rpo = 0) {
    Bytes b(144, 0); memcpy(b.data(), "LOGG", 4); b[4] = 144;
    for (int i = 0; i < 8; i++) { b[16 + i] = (fileSize >> (8 * i)) & 0xff; b[24 + i] = (usize >> (8 * i)) & 0xff; b[72 + i] = (rpo >> (8 * i)) & 0xff; }
    for (int i = 0; i < 4; i++) b[32 + i] = (count >> (8 * i)) & 0xff;
    return b;
}
inline Bytes container(const uint8_t * p, size_t n, int level) {
    Bytes comp;
    uint16_t method = level ? 2 : 0;
    if (level) { uLong cb = compressBound(n); comp.resize(cb); compress2(comp.data(), &cb, p, n, level); comp.resize(cb); }
    else comp.assign(p, p + n);
    Bytes b; uint32_t osz = 32 + (uint32_t)comp.size();
    putsig(b); put16(b, 16); put16(b, 1); put32(b, osz); put32(b, 10);
    put16(b, method); put16(b, 0); put32(b, 0); put32(b, (uint32_t)n); put32(b, 0);
    b.insert(b.end(), comp.begin(), comp.end());
    for (uint32_t i = 0; i < osz % 4; i++) b.push_back(0);
    return b;
}
inline Bytes wrap(const Bytes & stream, size_t csize, int level) {
    Bytes out = file_header();
    if (csize == 0) csize = stream.size() ? stream.size() : 1;
    for (size_t i = 0; i < stream.size(); i += csize) { Bytes c = container(stream.data() + i, std::min(csize, stream.size() - i), level); out.insert(out.end(), c.begin(), c.end()); }
    return out;
}
inline void save(const std::string & path, const Bytes & b) { std::ofstream f(path.c_str(), std::ios::binary | std::ios::trunc); f.write((const char *)b.data(), (std::streamsize)b.size()); }
inline Bytes load(const std::string & path) { std::ifstream f(path.c_str(), std::ios::binary); return Bytes((std::istreambuf_iterator<char>(f)), std::istreambuf_iterator<char>()); }

// strict parse of a finished file: returns "" if well-formed, else the first deviation; stream <- concatenated payloads
inline std::string parse(const Bytes & f, Bytes & stream, std::vector<uint32_t> * usizes = nullptr) {
    stream.clear();
    if (f.size() < 144 || memcmp(f.data(), "LOGG", 4)) return "bad file header";
    size_t pos = 144;
    while (pos < f.size()) {
        if (pos + 32 > f.size()) return "short container header at " + std::to_string(pos);
        if (memcmp(f.data() + pos, "LOBJ", 4)) return "no signature at " + std::to_string(pos);
        const uint8_t * q = f.data() + pos; uint32_t osz = get32(q + 8), ty = get32(q + 12), us = get32(q + 24); uint16_t m = get16(q + 16);
        if (get16(q + 4) != 16 || get16(q + 6) != 1 || ty != 10) return "bad container header at " + std::to_string(pos);
        if (osz < 32 || pos + osz > f.size()) return "container overruns file at " + std::to_string(pos);
        if (us > (64u << 20)) return "absurd uncompressed size at " + std::to_string(pos);
        Bytes pl;
        if (m == 0) pl.assign(f.data() + pos + 32, f.data() + pos + osz);
        else if (m == 2) { pl.resize(us); uLong n = us; Bytes dummy(1); int rc = uncompress(us ? pl.data() : dummy.data(), &n, f.data() + pos + 32, osz - 32); if (rc != Z_OK || n != us) return "inflate failed at " + std::to_string(pos); }
        else return "method " + std::to_string(m);
        if (pl.size() != us) return "uncompressed size mismatch at " + std::to_string(pos);
        if (usizes) usizes->push_back(us);
        stream.insert(stream.end(), pl.begin(), pl.end());
        pos += osz + osz % 4;
    }
    if (pos != f.size()) return "file ends inside padding";
    return "";
}
}
