// C16 concurrent half: ObjectQueue with one producer, one consumer and a third thread declaring the end / aborting,
// under the schedule controller. Client-boundary event log stamped with the controller's step counter; offline checker
// uses only sound consequences of the property (FIFO prefix, exactly-once, capacity inequality, null-implies-drained,
// eof-needs-declared-end-or-abort, abort releases all waiters [deadlock monitor], nothing leaked).
//   c16c <seed> <from> <to>
#include <Vector/BLF.h>
#include <condition_variable>
#include <mutex>
#include <set>
#include <sstream>
#include <thread>
#include "hcommon.h"
#include "rng.h"
#include "vsched.h"
#include "dfs.h"
#include "watchdog.h"

using namespace Vector::BLF;

struct Tok : ObjectHeaderBase {
    static std::atomic<long> live;
    uint32_t id;
    explicit Tok(uint32_t i) : ObjectHeaderBase(1, ObjectType::UNKNOWN), id(i) { live++; }
    ~Tok() override { live--; }
};
std::atomic<long> Tok::live{0};

enum Op { WRITE, READ, SETSIZE, ABORT };
struct Ev { int op; uint64_t call, ret; uint32_t val; bool done; };   // val: id written / id read (0 = null) / size declared

int main(int argc, char ** argv) {
    hc::out_init();
    if (argc < 5) return 2;
    uint64_t seed = strtoull(argv[2], nullptr, 0); long from = atol(argv[3]), to = atol(argv[4]);
    bool dfsmode = std::string(argv[1]) == "c16dfs";     // systematic: every schedule with <= 2 preemptions of each configuration
    int dfs_bound = argc > 5 ? atoi(argv[5]) : 2; uint64_t dfs_max = argc > 6 ? strtoull(argv[6], nullptr, 0) : 400000; uint64_t dfs_exec = 0, dfs_trunc = 0, dfs_cfgs = 0, dfs_maxdepth = 0;
    wd::start();
    long lowerings = 0; long sessions = 0, nulls = 0, aborts = 0, delivered = 0, left = 0, cap_checks = 0; std::set<uint64_t> sigs; std::string sample;
    for (long idx = from; idx < to; idx++) {
        hc::begin_case(std::to_string(idx));
        wd::arm(dfsmode ? 1200 : 60, "c16c");
        Rng r(Rng::mix(seed ^ 0xC16C, (uint64_t)idx));
        uint32_t cap = 1 + r.below(3); uint32_t n = r.below(5); int xkind = r.below(6);
        if (dfsmode) { cap = 1 + (uint32_t)(idx % 3); n = (uint32_t)((idx / 3) % 4); xkind = (int)((idx / 12) % 5); } bool xabort = xkind == 1; bool xfull = xkind == 2; bool xsmall = xkind == 3 && n > 0; bool xraise = xkind == 4; bool xlower = xkind == 5 && cap >= 2 && n > cap; uint32_t caplow = xlower ? 1 + (uint32_t)(idx % (cap - 1)) : cap;   /* 5: once the queue is full the consumer LOWERS the capacity and only then starts reading: while the queue holds at least the new capacity nothing may be pushed */ uint32_t capmax = xraise ? cap + 1 + (uint32_t)(idx % 3) : cap;   /* 4: the capacity is raised while the session runs (the producer may be blocked at the old limit), the end is declared once the producer is done */ uint32_t xk = xsmall ? r.below(n) : 0; int xdelay = dfsmode ? 0 : r.below(12);   // X: 0 setFileSize(tellp), 1 abort, 2 setFileSize(n) = total length declared up front
        // 3: once the producer is done, a size BELOW the number written is declared (the consumer may already be blocked on the empty queue)
        int strategy = r.chance(3, 4) ? SCHED_RANDOM : SCHED_FAVOUR; int sparam = r.below(3);
        std::ostringstream cfg; cfg << "cap=" << cap << " n=" << n << " x=" << (xabort ? std::string("abort") : xfull ? std::string("setFileSize(n)") : xsmall ? "after-producer:setFileSize(" + std::to_string(xk) + ")" : xraise ? "setBufferSize(" + std::to_string(capmax) + ");after-producer:setFileSize(tellp)" : xlower ? "when-full:setBufferSize(" + std::to_string(caplow) + ");after-producer:setFileSize(tellp)" : std::string("setFileSize(tellp)")) << (idx % 2 ? " spurious" : "") << " delay=" << xdelay << " strategy=" << strategy << "/" << sparam;
        static std::string ctx; ctx = cfg.str() + " case=" + std::to_string(idx);
        sched_on_violation = [](const char * kind, const char * key, const char * report) {
            std::string rr = report; for (auto & ch : rr) if (ch == '\n') ch = '|';
            printf("@viol conc:%s:%s :: %s || %s\n", kind, key, ctx.c_str(), rr.c_str()); fflush(stdout); _exit(42);
        };
        if (dfsmode) dfs::begin(dfs_bound);
        do {
        if (dfsmode) dfs::start_execution();
        std::vector<Ev> wlog(n), rlog; rlog.reserve(n + 2); Ev xev{}; Ev cabort{}; cabort.done = false;
        long base = Tok::live;
        std::string err;
        sched_set_budget(100000);
        sched_set_spurious(!dfsmode && idx % 2 ? 40 : 0); sched_set_timeouts(!dfsmode && idx % 4 == 3 ? 30 : 0);      // spurious wake-ups are legal for predicate waits
        sched_begin(Rng::mix(seed, (uint64_t)idx), strategy, sparam);
        {
            ObjectQueue<ObjectHeaderBase> q;
            q.setBufferSize(cap);
            std::mutex pm; std::condition_variable pcv; bool pdone = false;
            std::thread P([&] {
                struct Done { std::mutex & m; std::condition_variable & cv; bool & d; ~Done() { { std::lock_guard<std::mutex> l(m); d = true; } cv.notify_all(); } } done{pm, pcv, pdone};
                for (uint32_t i = 0; i < n; i++) { wlog[i].op = WRITE; wlog[i].val = i + 1; wlog[i].done = false; wlog[i].call = sched_steps(); q.write(new Tok(i + 1)); wlog[i].ret = sched_steps(); wlog[i].done = true; }
            });
            std::thread X([&] {
                std::mutex m; for (int i = 0; i < xdelay; i++) { std::lock_guard<std::mutex> l(m); }   // scheduling points
                if (xraise) q.setBufferSize(capmax);
                if (xsmall || xraise || xlower) { std::unique_lock<std::mutex> l(pm); pcv.wait(l, [&] { return pdone; }); }
                xev.op = xabort ? ABORT : SETSIZE; xev.call = sched_steps();
                if (xabort) q.abort(); else { xev.val = xfull ? n : xsmall ? xk : q.tellp(); q.setFileSize(xev.val); }
                xev.ret = sched_steps(); xev.done = true;
            });
            bool lowered = false; std::mutex dm; uint32_t nread = 0;
            if (xlower) {
                for (int spins = 0; q.tellp() < cap && spins < 300; spins++) { std::lock_guard<std::mutex> l(dm); }     // scheduling points until the queue is full
                if (q.tellp() == cap) { q.setBufferSize(caplow); lowered = true; lowerings++; }      // the producer is blocked at the old capacity, or about to find the queue full
            }
            for (;;) {
                if (lowered) {
                    // only this thread reads, so nread is exact: a push needs size < caplow under the queue's mutex, hence tellp <= max(cap, nread + caplow) at any time
                    for (int j = 0; j < 6; j++) { std::lock_guard<std::mutex> l(dm); }
                    uint32_t tp = q.tellp();
                    if (tp > std::max(cap, nread + caplow)) err = "capacity-exceeded-after-lowering";
                }
                Ev e; e.op = READ; e.call = sched_steps(); e.done = false;
                ObjectHeaderBase * o = q.read();
                e.ret = sched_steps(); e.done = true;
                if (o) {
                    Tok * t = dynamic_cast<Tok *>(o); e.val = t ? t->id : 0xffffffff;
                    if (!q.good() || q.eof()) err = "flags-after-object";
                    delete o; rlog.push_back(e); nread++;
                } else {
                    e.val = 0; rlog.push_back(e);
                    if (q.good() || !q.eof()) err = "flags-after-null";
                    break;
                }
                if (rlog.size() > n + 1) { err = "more-objects-than-written"; break; }
            }
            cabort.call = sched_steps(); q.abort(); cabort.ret = sched_steps(); cabort.done = true;   // releases a producer blocked on a full queue
            P.join(); X.join();
        }
        uint64_t sig = sched_signature();
        int leftthreads = sched_end();
        sessions++; sigs.insert(sig);
        // ---- offline checker over the event log
        std::string hist;
        { std::ostringstream h; for (auto & e : wlog) h << "w" << e.val << "[" << e.call << "," << e.ret << "] "; for (auto & e : rlog) h << "r" << e.val << "[" << e.call << "," << e.ret << "] ";
          h << (xabort ? "abort" : "fs") << xev.val << "[" << xev.call << "," << xev.ret << "]"; hist = h.str(); }
        auto viol = [&](const std::string & k, const std::string & t) { hc::viol("conc:" + k, t + " " + cfg.str() + " case=" + std::to_string(idx) + " log: " + hist); };
        if (leftthreads) viol("thread-left-behind", "");
        if (!err.empty()) viol(err, "");
        // (i) FIFO prefix, exactly once
        uint32_t got = 0; bool sawnull = false;
        for (auto & e : rlog) { if (e.val == 0) { sawnull = true; nulls++; continue; } if (e.val != got + 1) { viol("fifo-order", "got " + std::to_string(e.val) + " after " + std::to_string(got)); break; } got++; delivered++; }
        if (!sawnull) viol("no-end-of-stream", "");
        // (ii) capacity: when the i-th write returns, at least i - cap reads have been called (unless an abort was called before)
        for (uint32_t i = 0; i < n; i++) {
            if (!wlog[i].done) continue;
            bool aborted_before = (xabort && xev.call <= wlog[i].ret) || (cabort.call <= wlog[i].ret);
            if (aborted_before) continue;
            long reads_called = 0; for (auto & e : rlog) if (e.call <= wlog[i].ret) reads_called++;
            cap_checks++;
            if ((long)(i + 1) - reads_called > (long)capmax) viol("capacity-exceeded", "write " + std::to_string(i + 1) + " returned with only " + std::to_string(reads_called) + " reads called, capacity " + std::to_string(cap));
        }
        // (iii) null implies drained: every write that returned before the read was called has been delivered
        for (auto & e : rlog) if (e.val == 0) {
            uint32_t returned_before = 0; for (uint32_t i = 0; i < n; i++) if (wlog[i].done && wlog[i].ret < e.call) returned_before++;
            if (returned_before > got) viol("null-while-objects-remain", std::to_string(returned_before) + " writes had returned, " + std::to_string(got) + " delivered");
            // end-of-stream needs a declared end or an abort that was at least called before the read returned
            if (!(xev.call <= e.ret)) viol("eof-without-declared-end", "");
            // with the total length declared up front and no abort, end-of-stream means every object was delivered
            if (xfull && got != n) viol("eof-before-declared-size-consumed", std::to_string(got) + " of " + std::to_string(n) + " delivered");
        }
        if (xabort) aborts++;
        // (v) nothing leaked, nothing freed twice (ASan): queue destructor freed what was left
        long leftover = 0; for (uint32_t i = 0; i < n; i++) if (wlog[i].done) leftover++; leftover -= got; left += leftover;
        if (Tok::live != base) viol("objects-leaked-or-double-freed", "live delta " + std::to_string(Tok::live - base));
        if (sample.empty() && n >= 3) sample = cfg.str() + " log: " + hist;
        } while (dfsmode && dfs::next_execution(dfs_max));
        if (dfsmode) { dfs_exec += dfs::executions; dfs_cfgs++; if (dfs::truncated) dfs_trunc++; if (dfs::max_depth > dfs_maxdepth) dfs_maxdepth = dfs::max_depth; dfs::end(); }
        wd::disarm();
    }
    char sites[2048]; sched_site_counts(sites, sizeof sites);
    std::string s(sites); long blocked = 0; size_t p = s.find("\"ObjectQueue::write\":"); if (p != std::string::npos) blocked = atol(s.c_str() + p + 21);
    std::ostringstream o;
    o << "{\"sessions\":" << sessions << ",\"distinct_signatures\":" << sigs.size() << ",\"delivered\":" << delivered << ",\"null_results\":" << nulls << ",\"aborts\":" << aborts
      << ",\"left_for_destructor\":" << left << ",\"capacity_checks\":" << cap_checks << ",\"capacity_lowered_while_full\":" << lowerings << ",\"producer_blocked_at_capacity\":" << blocked << ",\"dfs_configurations\":" << dfs_cfgs << ",\"dfs_executions\":" << dfs_exec << ",\"dfs_truncated_configurations\":" << dfs_trunc << ",\"max_decisions_per_execution\":" << dfs_maxdepth << ",\"blocked_at\":{" << sites << "},\"samples\":[" << hc::jstr(sample) << "]}";
    hc::stat(o.str());
    return 0;
}
