// File-level monitors through the public File API (native threads, ASan/UBSan build):
//   c01  <seed> <from> <to>                 write-then-read sessions, field-by-field comparison (reflection)
//   gen  <seed> <from> <to> <dir> <K>       write files + sidecars (.E concatenated encodings, .json meta) for the python oracles
//                                           (case idx -> sequence idx / K, configuration idx % K); also re-reads each file (reader counters)
//   c05r <seed> <from> <to> <listfile>      consume reference logs, report reader counters vs header
//   c08  <seed> <from> <to> <nbase>         every truncation offset of library-written base files (case = global offset index)
//   c08count <seed> <nbase>                 print number of cases
#include <atomic>
#include <Vector/BLF.h>
#include <fstream>
#include <set>
#include <thread>
#include "hcommon.h"
#include "seqgen.h"
#include "twin.h"
#include "watchdog.h"
#define NEWCAP_IMPL
#include "newcap.h"
#if defined(__SANITIZE_ADDRESS__) && __has_include(<sanitizer/lsan_interface.h>)
#include <sanitizer/lsan_interface.h>
#define VERIF_HAVE_LSAN 1
#endif

using namespace Vector::BLF;
using ol::Obj;

static std::string g_dir;

static std::string tmp_path(const char * tag) { return g_dir + "/" + tag + "." + std::to_string(getpid()) + ".blf"; }

// write a sequence through the File API; ownership of clones passes to the library. returns error text or ""
static std::string write_file(const std::string & path, const sg::Seq & s, const sg::Config & c, File * keep = nullptr,
                              void (*prep)(File &, void *) = nullptr, void * arg = nullptr, int pause_ms = 0, bool level_after_open = false, bool prep_late = false) {
    File local; File & f = keep ? *keep : local;
    f.compressionLevel = level_after_open ? (c.level ? 0 : 6) : c.level; f.writeRestorePoints = c.trailer; f.setDefaultLogContainerSize(c.C);
    if (c.tiny_limits) f.verifSetLimits(c.Q, c.B);
    if (prep && !prep_late) prep(f, arg);
    if (prep_late) f.writeRestorePoints = !c.trailer;
    // every fourth session first fails to open (missing directory / missing file) on the same File: an open() that failed leaves no trace
    static std::atomic<long> calls{0}; long call = ++calls;
    if (call % 4 == 2) { f.open((path + ".no-such-dir/x.blf").c_str(), std::ios_base::out); if (call % 8 == 2) f.open((path + ".missing").c_str(), std::ios_base::in); if (f.is_open()) return "open() of a path in a missing directory succeeded"; }
    f.open(path.c_str(), std::ios_base::out);
    if (!f.is_open()) return "open(out) failed";
    if (level_after_open) { struct timespec ts = {0, 3000000}; nanosleep(&ts, nullptr); f.compressionLevel = c.level; }    // the level is configured after open(), before anything is written
    for (size_t i = 0; i < s.objs.size(); i++) {
        f.write(s.cis[i]->clone(s.objs[i]));
        if (pause_ms && i + 1 == s.objs.size() / 2) { struct timespec ts = {0, pause_ms * 1000000L / 2}; nanosleep(&ts, nullptr); }
    }
    if (pause_ms) { struct timespec ts = {0, pause_ms * 1000000L}; nanosleep(&ts, nullptr); }     // the application idles before close()
    if (prep && prep_late) { prep(f, arg); f.writeRestorePoints = c.trailer; }      // caller-supplied header fields (last object time ...) and the trailer switch set at the end of the session
    f.close();
    if (f.is_open()) return "still open after close";
    return "";
}

static std::string cfgclass(const sg::Config & c) {
    return std::string(c.C < 64 ? "tinyC" : c.C < 0x20000 ? "C<buffer" : c.C == 0x20000 ? "C=buffer" : "C>buffer") + (c.level ? "" : ",level0");
}

// deflate's worst case: one object whose payload is high-entropy and longer than two containers, in containers above the size
// of zlib's literal buffer, at a level that really compresses (stored blocks, output larger than input)
static void add_incompressible(sg::Seq & s, sg::Config & c, uint64_t seed, long sel, long csel) {
    static const uint32_t cs[] = {20000, 65536, 0x20000, 0x20001, 300000}; c.C = cs[csel % 5]; c.level = 1 + (int)(csel % 9); c.tiny_limits = false;
    const vr::ClassInfo * ci = ol::find_class(sel % 2 ? "AppText" : "EnvironmentVariable"); ObjectHeaderBase * o = ci->make(); Obj ob(ci, o);
    const vr::Field & pl = ob.get(sel % 2 ? "text" : "data"); pl.resize((size_t)700000 + (size_t)(sel % 7));      // more than two of the largest container used here
    Rng r(Rng::mix(seed ^ 0x1C0, (uint64_t)sel)); uint8_t * w = (uint8_t *)pl.wdata(); size_t n = pl.nbytes();
    for (size_t i = 0; i + 8 <= n; i += 8) { uint64_t v = r.next(); memcpy(w + i, &v, 8); } for (size_t i = n & ~(size_t)7; i < n; i++) w[i] = (uint8_t)r.next();
    ob.get("objectTimeStamp").set_u64(0x1000000ULL + s.objs.size()); s.objs.push_back(o); s.cis.push_back(ci);
}

// ---------------------------------------------------------------------------------------------------------------- C01
struct C01Acc { long sessions = 0, objects = 0; std::set<std::string> shapes; std::map<std::string, long> perclass; std::set<int> levels; std::set<uint32_t> csizes; std::string sample; };
static void c01_one(uint64_t seed, long idx, const std::string & path, C01Acc & acc) {
    long & sessions = acc.sessions; long & objects = acc.objects; std::set<std::string> & shapes = acc.shapes; std::map<std::string, long> & perclass = acc.perclass; std::set<int> & levels = acc.levels; std::set<uint32_t> & csizes = acc.csizes; std::string & sample = acc.sample;
    {
        sg::Config c = sg::make_config(seed, idx);
        sg::Seq s; sg::make_sequence(s, seed, idx, c.C < 16 ? 12 : 40, true, std::min<size_t>(3u << 20, (size_t)c.C * 2000));   // the stream stages scan their container list per chunk: keep #containers tractable
        if (idx % 97 == 5) {      // one object whose payload of a single repeated byte is longer than a large container (deflate's best case, > 1000:1)
            static const uint32_t bigc[] = {1u << 20, 2u << 20, 4u << 20}; c.C = bigc[(idx / 97) % 3]; c.level = 4 + (int)((idx / 97) % 6); c.tiny_limits = false;
            const vr::ClassInfo * ci = ol::find_class((idx / 97) % 2 ? "AppText" : "EnvironmentVariable"); ObjectHeaderBase * o = ci->make(); Obj ob(ci, o);
            const vr::Field & pl = ob.get((idx / 97) % 2 ? "text" : "data"); pl.resize((size_t)c.C * 2 + c.C / 3); memset(pl.wdata(), (idx / 97) % 3 == 0 ? 0 : (idx / 97) % 3 == 1 ? 0xff : 'z', pl.nbytes());
            ob.get("objectTimeStamp").set_u64(0x1000000ULL + s.objs.size()); s.objs.push_back(o); s.cis.push_back(ci);
        }
        if (idx % 97 == 11) add_incompressible(s, c, seed, idx / 97, idx / 97);
        std::string ctx = " [" + c.str() + "] case=" + std::to_string(idx) + " " + sg::describe_seq(s, 4);
        std::string e = write_file(path, s, c, nullptr, nullptr, nullptr, 0, idx % 16 == 9);
        if (!e.empty()) { hc::viol("write-session:" + e, ctx); return; }
        {
            File f;
            if (c.tiny_limits) f.verifSetLimits(c.Q, c.B);
            f.open(path.c_str(), std::ios_base::in);
            if (!f.is_open()) { hc::viol("reopen-failed", ctx); return; }
            size_t i = 0; bool bad = false;
            for (;; i++) {
                ObjectHeaderBase * o = f.read();
                if (!o) break;
                if (i >= s.objs.size()) { hc::viol("more-objects-than-written:" + cfgclass(c), "extra object type " + std::to_string((unsigned)o->objectType) + ctx); delete o; bad = true; break; }
                const vr::ClassInfo * ci = ol::class_of(o);
                if (ci != s.cis[i]) { hc::viol(std::string("class-changed:") + s.cis[i]->name, std::string("read back as ") + (ci ? ci->name : "?") + " at " + std::to_string(i) + ctx); delete o; bad = true; break; }
                Obj a(s.cis[i], s.objs[i]), b(ci, o);
                auto d = ol::compare(a, b);
                if (!d.empty()) {
                    hc::viol(std::string("field-changed:") + ci->name + ":" + d[0].path, "wrote " + d[0].a + " read " + d[0].b + " object " + std::to_string(i) + " " + ol::describe(a, 300) + ctx);
                    bad = true;
                }
                if (!f.good() || f.eof()) { hc::viol("flags-after-object", ctx); bad = true; }
                shapes.insert(ol::shape(a)); perclass[ci->name]++;
                delete o; objects++;
                if (bad) break;
            }
            if (!bad) {
                if (i != s.objs.size()) hc::viol("objects-missing:" + cfgclass(c), "read " + std::to_string(i) + " of " + std::to_string(s.objs.size()) + (i < s.objs.size() ? std::string(" next would be ") + s.cis[i]->name : "") + ctx);
                else if (f.good() || !f.eof()) hc::viol("flags-after-end", "good=" + std::to_string(f.good()) + " eof=" + std::to_string(f.eof()) + ctx);
                else { ObjectHeaderBase * o = f.read(); if (o) { hc::viol("object-after-end", ctx); delete o; } }
            }
            f.close();
        }
        sessions++; levels.insert(c.level); csizes.insert(c.C);
        if (sample.empty() || idx % 101 == 0) sample = "[" + c.str() + "] " + sg::describe_seq(s, 5);
    }
}

static int run_c01(uint64_t seed, long from, long to) {
    ol::spec_selfcheck();
    std::string path = tmp_path("c01");
    C01Acc acc, acc2; long pairs = 0;
    for (long idx = from; idx < to; idx++) {
        hc::begin_case(std::to_string(idx));
        wd::arm(120, "c01-session"); wd::note(("c01 case " + std::to_string(idx)).c_str());
        // one case in eight runs together with its successor: two independent Files on two application threads
        if (idx % 8 == 0 && idx + 1 < to) { std::thread t([&] { c01_one(seed, idx + 1, path + ".b", acc2); }); c01_one(seed, idx, path, acc); t.join(); pairs++; idx++; hc::begin_case(std::to_string(idx)); }
        else c01_one(seed, idx, path, acc);
        wd::disarm();
    }
    unlink(path.c_str()); unlink((path + ".b").c_str());
    acc.sessions += acc2.sessions; acc.objects += acc2.objects; acc.shapes.insert(acc2.shapes.begin(), acc2.shapes.end()); for (auto & kv : acc2.perclass) acc.perclass[kv.first] += kv.second;
    acc.levels.insert(acc2.levels.begin(), acc2.levels.end()); acc.csizes.insert(acc2.csizes.begin(), acc2.csizes.end());
    long sessions = acc.sessions, objects = acc.objects; std::set<std::string> & shapes = acc.shapes; std::map<std::string, long> & perclass = acc.perclass; std::set<int> & levels = acc.levels; std::set<uint32_t> & csizes = acc.csizes; std::string & sample = acc.sample;
    long minc = -1; for (int i = 0; i < vr::nclasses; i++) { long n = perclass.count(vr::classes[i].name) ? perclass[vr::classes[i].name] : 0; if (minc < 0 || n < minc) minc = n; }
    std::ostringstream o; o << "{\"sessions\":" << sessions << ",\"concurrent_pairs\":" << pairs << ",\"objects\":" << objects << ",\"classes_seen\":" << perclass.size() << ",\"min_per_class\":" << minc << ",\"levels\":[";
    { bool f = true; for (int l : levels) { o << (f ? "" : ",") << l; f = false; } } o << "],\"container_sizes\":[";
    { bool f = true; for (uint32_t l : csizes) { o << (f ? "" : ",") << l; f = false; } } o << "],\"shapes\":[";
    { int k = 0; for (auto & sname : shapes) { if (k++) o << ","; o << hc::jstr(sname); if (k > 3000) break; } }
    o << "],\"samples\":[" << hc::jstr(sample) << "]}";
    hc::stat(o.str());
    return 0;
}

// ---------------------------------------------------------------------------------------------------------------- gen (C04/C05/C14)
struct HdrVals { uint32_t apiNumber; uint8_t applicationId, compressionLevel, applicationMajor, applicationMinor; uint32_t applicationBuild; uint16_t t1[8], t2[8]; };

static void set_header(File & f, void * arg) {
    HdrVals * h = static_cast<HdrVals *>(arg);
    f.fileStatistics.apiNumber = h->apiNumber; f.fileStatistics.applicationId = h->applicationId; f.fileStatistics.compressionLevel = h->compressionLevel;
    f.fileStatistics.applicationMajor = h->applicationMajor; f.fileStatistics.applicationMinor = h->applicationMinor; f.fileStatistics.applicationBuild = h->applicationBuild;
    SYSTEMTIME * st[2] = {&f.fileStatistics.measurementStartTime, &f.fileStatistics.lastObjectTime}; uint16_t * src[2] = {h->t1, h->t2};
    for (int k = 0; k < 2; k++) { st[k]->year = src[k][0]; st[k]->month = src[k][1]; st[k]->dayOfWeek = src[k][2]; st[k]->day = src[k][3]; st[k]->hour = src[k][4]; st[k]->minute = src[k][5]; st[k]->second = src[k][6]; st[k]->milliseconds = src[k][7]; }
}

static bool gen_one(uint64_t seed, long idx, const std::string & dir, long K) {
        long sidx = idx / K, k = idx % K;
        sg::Config c = sg::make_config(seed, sidx * 7 + k * 13 + k);    // K different configurations for the same sequence
        if (k == 0) { c.level = (int)(sidx % 10); }
        // every other sequence is small enough for the tiny container sizes; the others only meet containers >= 100 bytes
        bool small = (sidx % 2 == 0);
        if (!small && c.C < 100) c.C = sg::CSIZES[5 + (sidx + k) % 7];
        sg::Seq s; sg::make_sequence(s, seed, sidx, small ? 8 : 30, !small && (sidx % 4) == 1, small ? 2500 : 200000);
        if (sidx % 29 == 3) add_incompressible(s, c, seed, sidx / 29, sidx / 29 + k);      // same object for the K configurations of a sequence
        Rng r(Rng::mix(seed ^ 0x4EAD, (uint64_t)idx));
        HdrVals h; h.apiNumber = (uint32_t)ol::boundary_value(r, 4); h.applicationId = (uint8_t)ol::boundary_value(r, 1); h.compressionLevel = (uint8_t)ol::boundary_value(r, 1);
        h.applicationMajor = (uint8_t)ol::boundary_value(r, 1); h.applicationMinor = (uint8_t)ol::boundary_value(r, 1); h.applicationBuild = (uint32_t)ol::boundary_value(r, 4);
        for (int i = 0; i < 8; i++) { h.t1[i] = (uint16_t)ol::boundary_value(r, 2); h.t2[i] = (uint16_t)ol::boundary_value(r, 2); }
        std::string base = dir + "/" + std::to_string(idx);
        std::string ctx = " [" + c.str() + "] case=" + std::to_string(idx);
        // concatenated encodings, obtained independently of the pipeline on the harness thread
        std::vector<uint8_t> E; long n115 = 0; std::vector<size_t> ends;
        for (size_t i = 0; i < s.objs.size(); i++) { std::vector<uint8_t> e = sg::encode(s.objs[i], s.cis[i]); E.insert(E.end(), e.begin(), e.end()); ends.push_back(E.size()); if ((unsigned)s.objs[i]->objectType == 115) n115++; }
        uint64_t w_usize, w_count, w_fsize, w_rpo; uint64_t w_cur_usize; uint32_t w_cur_count;
        if (idx % 4 == 3) { twin::Bytes old = twin::wrap(twin::Bytes(E.begin(), E.end()), 100, 0); old.insert(old.end(), old.begin() + 144, old.end()); old.insert(old.end(), 5000, 0x4c); twin::save(base + ".blf", old); }   // an older, longer log at the same path
        {
            File f;
            std::string e = write_file(base + ".blf", s, c, &f, set_header, &h, 0, idx % 5 == 2, idx % 3 == 1);
            if (!e.empty()) { hc::viol("write-session:" + e, ctx); return false; }
            w_usize = f.fileStatistics.uncompressedFileSize; w_count = f.fileStatistics.objectCount; w_fsize = f.fileStatistics.fileSize; w_rpo = f.fileStatistics.restorePointsOffset;
            w_cur_usize = f.currentUncompressedFileSize; w_cur_count = f.currentObjectCount;
        }
        // reader side on the library-written file
        uint64_t r_usize = 0, r_hdr_usize = 0; uint32_t r_count = 0, r_hdr_count = 0; long r_objects = 0;
        {
            File f; static long rcalls = 0; if (++rcalls % 3 == 1) f.open((base + ".missing.blf").c_str(), std::ios_base::in);     // a failed open first, on the same File
            f.open((base + ".blf").c_str(), std::ios_base::in);
            if (f.is_open()) { while (ObjectHeaderBase * o = f.read()) { delete o; r_objects++; } r_hdr_usize = f.fileStatistics.uncompressedFileSize; r_hdr_count = f.fileStatistics.objectCount; f.close(); r_usize = f.currentUncompressedFileSize; r_count = f.currentObjectCount; }
            else hc::viol("reopen-failed", ctx);
        }
        { std::ofstream e((base + ".E").c_str(), std::ios::binary); e.write((const char *)E.data(), (std::streamsize)E.size()); }
        std::ostringstream j;
        j << "{\"idx\":" << idx << ",\"seq\":" << sidx << ",\"level\":" << c.level << ",\"C\":" << c.C << ",\"trailer\":" << (c.trailer ? 1 : 0) << ",\"nobj\":" << s.objs.size() << ",\"n115\":" << n115
          << ",\"apiNumber\":" << h.apiNumber << ",\"applicationId\":" << (unsigned)h.applicationId << ",\"hdrCompressionLevel\":" << (unsigned)h.compressionLevel << ",\"applicationMajor\":" << (unsigned)h.applicationMajor
          << ",\"applicationMinor\":" << (unsigned)h.applicationMinor << ",\"applicationBuild\":" << h.applicationBuild << ",\"t1\":[";
        for (int i = 0; i < 8; i++) j << (i ? "," : "") << h.t1[i]; j << "],\"t2\":["; for (int i = 0; i < 8; i++) j << (i ? "," : "") << h.t2[i];
        j << "],\"w_usize\":" << w_usize << ",\"w_count\":" << w_count << ",\"w_fsize\":" << w_fsize << ",\"w_rpo\":" << w_rpo << ",\"w_cur_usize\":" << w_cur_usize << ",\"w_cur_count\":" << w_cur_count
          << ",\"r_usize\":" << r_usize << ",\"r_count\":" << r_count << ",\"r_hdr_usize\":" << r_hdr_usize << ",\"r_hdr_count\":" << r_hdr_count << ",\"r_objects\":" << r_objects
          << ",\"shape\":" << hc::jstr(sg::describe_seq(s, 3)) << ",\"ends\":[";
        for (size_t i = 0; i < ends.size(); i++) j << (i ? "," : "") << ends[i];
        j << "]}";
        { std::ofstream m((base + ".json").c_str()); m << j.str(); }
        return true;
}

#include <thread>
static int run_gen(uint64_t seed, long from, long to, const std::string & dir, long K) {
    ol::spec_selfcheck();
    long files = 0, concurrent_pairs = 0;
    for (long idx = from; idx < to; idx++) {
        hc::begin_case(std::to_string(idx));
        wd::arm(240, "gen-session"); wd::note(("gen case " + std::to_string(idx)).c_str());
        // every other pair of cases runs as two independent File sessions at the same time (two application threads, two files)
        if ((idx / 2) % 2 == 0 && idx % 2 == 0 && idx + 1 < to) {
            bool ok2 = false; std::thread t([&] { ok2 = gen_one(seed, idx + 1, dir, K); });
            bool ok1 = gen_one(seed, idx, dir, K); t.join();
            files += (ok1 ? 1 : 0) + (ok2 ? 1 : 0); concurrent_pairs++; idx++; hc::begin_case(std::to_string(idx));
        } else if (gen_one(seed, idx, dir, K)) files++;
        wd::disarm();
    }
    hc::stat("{\"files\":" + std::to_string(files) + ",\"concurrent_pairs\":" + std::to_string(concurrent_pairs) + "}");
    return 0;
}

// ---------------------------------------------------------------------------------------------------------------- c05r
static int run_c05r(long from, long to, const char * listfile) {
    std::vector<std::string> files; { std::ifstream l(listfile); std::string s; while (std::getline(l, s)) if (!s.empty()) files.push_back(s); }
    for (long i = from; i < to && i < (long)files.size(); i++) {
        hc::begin_case(std::to_string(i));
        wd::arm(60, "c05r"); wd::note(files[i].c_str());
        File f; if (i % 3 == 1) f.open((files[i] + ".missing").c_str(), std::ios_base::in);     // a failed open first, on the same File
        f.open(files[i].c_str(), std::ios_base::in);
        if (!f.is_open()) { hc::viol("reference-log-not-opened", files[i]); continue; }
        long n = 0, n115 = 0; while (ObjectHeaderBase * o = f.read()) { if ((unsigned)o->objectType == 115) n115++; delete o; n++; }
        uint64_t hu = f.fileStatistics.uncompressedFileSize; uint32_t hc_ = f.fileStatistics.objectCount;
        f.close();
        printf("@ref %ld %llu %u %llu %u %ld %ld\n", i, (unsigned long long)hu, hc_, (unsigned long long)f.currentUncompressedFileSize, (unsigned)f.currentObjectCount, n, n115);
        wd::disarm();
    }
    hc::stat("{\"logs\":" + std::to_string(to - from) + "}");
    return 0;
}

// ---------------------------------------------------------------------------------------------------------------- C08
struct Base { std::vector<uint8_t> file; std::vector<size_t> cont_end; std::vector<size_t> cont_cum; std::vector<size_t> obj_end; std::vector<size_t> obj_need; sg::Seq seq; sg::Config cfg; bool initial_header; };

static void make_base(uint64_t seed, int b, Base & B, const std::string & path) {
    static const int levels[] = {0, 1, 6, 9}; static const uint32_t cs[] = {16, 100, 1000};
    Rng r(Rng::mix(seed ^ 0xC08, (uint64_t)b));
    B.initial_header = b % 2; B.cfg.level = levels[(b / 2) % 4]; B.cfg.C = cs[(b / 8) % 3]; B.cfg.trailer = (b / 24) % 2; B.cfg.tiny_limits = false; B.cfg.B = 0; B.cfg.Q = 0;
    // 12..30 objects of mixed classes, small payloads, variable-size classes with empty payloads included
    int n = 12 + r.below(19);
    for (int i = 0; i < n; i++) {
        const vr::ClassInfo * ci = &vr::classes[r.below(vr::nclasses)];
        ObjectHeaderBase * o = ci->make(); Obj ob(ci, o);
        ol::GenOpts g; g.fixed_len = r.chance(1, 3) ? 0 : (int)r.below(12);
        ol::randomise(ob, r, g);
        ob.get("objectTimeStamp").set_u64(0x2000000ULL + (uint64_t)i);
        B.seq.objs.push_back(o); B.seq.cis.push_back(ci);
    }
    std::string e = write_file(path, B.seq, B.cfg);
    if (!e.empty()) { fprintf(stderr, "HARNESS: cannot write base file: %s\n", e.c_str()); _exit(2); }
    B.file = twin::load(path);
    if (B.initial_header) { FileStatistics fs; MemFile mf; fs.write(mf); if (mf.buf.size() != 144) { fprintf(stderr, "HARNESS: initial header size\n"); _exit(2); } memcpy(B.file.data(), mf.buf.data(), 144); }
    // container boundaries from the independent parser
    size_t pos = 144, cum = 0;
    while (pos + 32 <= B.file.size()) {
        uint32_t osz = twin::get32(&B.file[pos + 8]), us = twin::get32(&B.file[pos + 24]);
        cum += us; B.cont_end.push_back(pos + osz); B.cont_cum.push_back(cum);
        pos += osz + osz % 4;
    }
    size_t off = 0;
    for (size_t i = 0; i < B.seq.objs.size(); i++) {
        std::vector<uint8_t> enc = sg::encode(B.seq.objs[i], B.seq.cis[i]);
        uint32_t osz = twin::get32(&enc[8]);
        B.obj_end.push_back(off + osz);      // object wholly stored when its objectSize bytes are available (alignment padding after it is skipped, not read)
        // last byte the decoder actually READS (the tail of an object can be slack that is only skipped, e.g. the unused part of the
        // serial-event union): an object cut inside that slack is intact, so delivering it is tolerated but not demanded
        { ObjectHeaderBase * d = B.seq.cis[i]->make(); MemFile in; in.buf = enc; in.trace = true; d->read(in); size_t need = 0; for (auto & c : in.rd) need = std::max(need, c.off + c.n); delete d; B.obj_need.push_back(off + std::min<size_t>(need, osz)); }
        off += enc.size();
    }
}

static int run_c08(uint64_t seed, long from, long to, int nbase, bool count_only) {
    ol::spec_selfcheck();
    std::string path = tmp_path("c08");
    std::vector<std::unique_ptr<Base>> bases; std::vector<long> start; long total = 0;
    for (int b = 0; b < nbase; b++) { Base * B = new Base; bases.emplace_back(B); make_base(seed, b, *B, path); start.push_back(total); total += (long)B->file.size() + 1; }
    if (count_only) { printf("%ld\n", total); return 0; }
    long sessions = 0, threw = 0, delivered = 0, nonempty = 0, in_band = 0, tiny = 0; std::set<long> distinct_counts; std::string sample;
    for (long idx = from; idx < to && idx < total; idx++) {
        hc::begin_case(std::to_string(idx));
        int b = 0; while (b + 1 < nbase && start[b + 1] <= idx) b++;
        Base & B = *bases[b]; size_t L = (size_t)(idx - start[b]);
        wd::arm(60, "c08-session");
        std::string ctx = " base=" + std::to_string(b) + " [" + B.cfg.str() + (B.initial_header ? " initial-header" : "") + "] cut=" + std::to_string(L) + "/" + std::to_string(B.file.size());
        wd::note(ctx.c_str());
        twin::Bytes pre(B.file.begin(), B.file.begin() + L); twin::save(path, pre);
        // expectation from the independent container walk
        size_t A = 0; for (size_t i = 0; i < B.cont_end.size(); i++) if (B.cont_end[i] <= L) A = B.cont_cum[i]; else break;
        size_t expect = 0; while (expect < B.obj_end.size() && B.obj_end[expect] <= A) expect++;
        size_t expect_max = expect; if (expect_max < B.obj_need.size() && B.obj_need[expect_max] <= A) expect_max++;     // at most one object can be cut inside its skipped tail
        std::string key;
        try {
            File f;
            bool opened = false;
            if (idx % 3 == 1) { f.verifSetLimits(1 + (uint32_t)(idx / 3) % 3, 64 << ((idx / 9) % 4)); tiny++; }     // workers blocked on full buffers when the input ends early
            try { f.open(path.c_str(), std::ios_base::in); opened = f.is_open(); } catch (Vector::BLF::Exception &) { threw++; }
            if (opened) {
                size_t i = 0;
                for (;; i++) {
                    ObjectHeaderBase * o = f.read();
                    if (!o) break;
                    if (i >= expect_max) { if (key.empty()) key = "object-beyond-stored-containers"; ctx += " extra object " + std::to_string(i) + " type " + std::to_string((unsigned)o->objectType); delete o; continue; }
                    const vr::ClassInfo * ci = ol::class_of(o);
                    if (ci != B.seq.cis[i]) { if (key.empty()) key = "class-changed"; }
                    else { Obj a(ci, B.seq.objs[i]), bb(ci, o); auto d = ol::compare(a, bb); if (!d.empty() && key.empty()) { key = std::string("object-modified:") + ci->name + ":" + d[0].path; ctx += " wrote " + d[0].a + " read " + d[0].b; } }
                    delete o; delivered++;
                }
                if (i < expect && key.empty()) { key = "objects-of-complete-containers-missing"; ctx += " delivered " + std::to_string(i) + " expected " + std::to_string(expect); }
                if (i > 0) nonempty++;
                if (i > expect) in_band++;
                printf("@cnt %d %zu %zu\n", b, L, i);
                distinct_counts.insert((long)b * 1000 + (long)i);
                f.close();
            } else if (L >= 144 + 32 && expect > 0) {
                // open refused although complete containers exist: allowed by the property ("either raises the library's exception or succeeds")
            }
        } catch (Vector::BLF::Exception & e) { key = "exception-escapes-outside-open"; ctx += std::string(" what=") + e.what(); }
        catch (std::exception & e) { key = "foreign-exception"; ctx += std::string(" what=") + e.what(); }
        if (!key.empty()) hc::viol(key + (B.initial_header ? ":initial-header" : ""), ctx);
        sessions++;
        if (sample.empty() || idx % 499 == 0) sample = ctx + " -> expected " + std::to_string(expect) + " objects";
        wd::disarm();
    }
    unlink(path.c_str());
    std::ostringstream o; o << "{\"sessions\":" << sessions << ",\"sessions_with_tiny_limits\":" << tiny << ",\"open_threw\":" << threw << ",\"objects_delivered\":" << delivered << ",\"sessions_with_objects\":" << nonempty << ",\"distinct_outcomes\":" << distinct_counts.size() << ",\"delivered_although_cut_in_skipped_tail\":" << in_band << ",\"bases\":" << nbase << ",\"samples\":[" << hc::jstr(sample) << "]}";
    hc::stat(o.str());
    return 0;
}


// ---------------------------------------------------------------------------------------------------------------- ids (C09, C10 helper)
// read every file of a list and print what is delivered: "@ids <i> <type>:<id>:<crc32 of re-encoding> ..." (id = CanMessage.id / AppText.source)
#include <zlib.h>
static int run_ids(long from, long to, const char * listfile) {
    std::vector<std::string> files; { std::ifstream l(listfile); std::string s; while (std::getline(l, s)) if (!s.empty()) files.push_back(s); }
    long n = 0, objs = 0;
    for (long i = from; i < to && i < (long)files.size(); i++) {
        hc::begin_case(std::to_string(i));
        wd::arm(60, "ids-session"); wd::note(files[i].c_str());
        std::ostringstream line; line << "@ids " << i;
        try {
            File f;
            if (const char * lim = getenv("VERIF_IDS_LIMITS")) { unsigned q = 10; long b = 64; sscanf(lim, "%u,%ld", &q, &b); f.verifSetLimits(q, b); }
            f.open(files[i].c_str(), std::ios_base::in);
            if (!f.is_open()) line << " !notopen";
            else {
                long k = 0;
                while (ObjectHeaderBase * o = f.read()) {
                    uint32_t id = 0;
                    if (CanMessage * m = dynamic_cast<CanMessage *>(o)) id = m->id; else if (AppText * t = dynamic_cast<AppText *>(o)) id = t->source; else if (LinMessage2 * l = dynamic_cast<LinMessage2 *>(o)) id = (uint32_t)l->objectTimeStamp;
                    MemFile mf; o->write(mf);
                    line << " " << (unsigned)o->objectType << ":" << id << ":" << crc32(0, mf.buf.data(), (uInt)mf.buf.size());
                    delete o; objs++;
                    if (++k > 100000) { line << " !unbounded"; break; }
                }
                if (f.good() || !f.eof()) line << " !flags";
                f.close();
            }
        } catch (Vector::BLF::Exception & e) { line << " !exception"; }
        catch (std::exception & e) { line << " !foreign:" << e.what(); }
        printf("%s\n", line.str().c_str());
        n++;
        wd::disarm();
    }
    hc::stat("{\"files\":" + std::to_string(n) + ",\"objects\":" + std::to_string(objs) + "}");
    return 0;
}

// ---------------------------------------------------------------------------------------------------------------- C10
// hostile inputs: enumerated mutations of valid files at file level and at inflated-stream level (re-wrapped by the independent writer)
struct C10Base {
    twin::Bytes file; twin::Bytes stream; std::vector<size_t> cpos; std::vector<size_t> cend;   // container start / end (incl. pad) offsets in file
    std::vector<size_t> opos;                                                                     // object start offsets in stream (by header walk)
    long n_fbyte, n_f16, n_f32, n_ftrunc, n_fblock, n_sbyte, n_s16, n_s32, n_strunc, n_sblock, n_osize, n_cfield, n_combo, n_ccombo, n_tail;
    long total() const { return n_fbyte + n_f16 + n_f32 + n_ftrunc + n_fblock + n_sbyte + n_s16 + n_s32 + n_strunc + n_sblock + n_osize + n_cfield + n_combo + n_ccombo + n_tail; }
    // segments in the order c10_mutant() consumes them; bulk segments are strided in the quick tier, targeted ones always run completely
    void segs(long * n) const { long v[15] = {n_fbyte, n_f16, n_f32, n_ftrunc, n_fblock, n_sbyte, n_s16, n_s32, n_strunc, n_sblock, n_osize, n_combo, n_ccombo, n_tail, n_cfield}; for (int i = 0; i < 15; i++) n[i] = v[i]; }
    static bool bulk(int seg) { return seg <= 3 || (seg >= 5 && seg <= 8); }
    long bulk_total() const { long n[15]; segs(n); long t = 0; for (int i = 0; i < 15; i++) if (bulk(i)) t += n[i]; return t; }
    long targeted_total() const { return total() - bulk_total(); }
    // index within the bulk (or targeted) sub-space -> unified index for c10_mutant
    long unify(long k, bool want_bulk) const { long n[15]; segs(n); long base = 0; for (int i = 0; i < 15; i++) { if (bulk(i) == want_bulk) { if (k < n[i]) return base + k; k -= n[i]; } base += n[i]; } return total() - 1; }
};
static const uint8_t BV8[] = {0x00, 0x01, 0x7f, 0x80, 0xff};
static const uint64_t BVW[] = {0, 1, 0x7fffffffffffffffULL, 0x8000000000000000ULL, 0xffffffffffffffffULL};

static void c10_prepare(C10Base & b) {
    std::string e = twin::parse(b.file, b.stream);
    if (!e.empty()) b.stream.clear();
    size_t pos = 144;
    while (pos + 32 <= b.file.size() && !memcmp(&b.file[pos], "LOBJ", 4)) {
        uint32_t osz = twin::get32(&b.file[pos + 8]); if (osz < 32 || pos + osz > b.file.size()) break;
        b.cpos.push_back(pos); pos += osz + osz % 4; if (pos > b.file.size()) pos = b.file.size(); b.cend.push_back(pos);
    }
    size_t p = 0;
    while (p + 16 <= b.stream.size()) {
        if (memcmp(&b.stream[p], "LOBJ", 4)) { p++; continue; }
        uint32_t osz = twin::get32(&b.stream[p + 8]); b.opos.push_back(p); p += std::max<uint32_t>(osz, 16);
    }
    size_t n = b.file.size(), m = b.stream.size();
    b.n_fbyte = 5 * (long)n; b.n_f16 = 7 * (long)(n / 2); b.n_f32 = 7 * (long)(n / 4); b.n_ftrunc = (long)n + 1; b.n_fblock = 3 * (long)b.cpos.size();
    b.n_sbyte = 2 * 5 * (long)m; b.n_s16 = 7 * (long)(m / 2); b.n_s32 = 2 * 7 * (long)(m / 4); b.n_strunc = 2 * ((long)m + 1); b.n_sblock = 3 * (long)b.opos.size();
    b.n_osize = 21 * (long)b.opos.size() * 2; b.n_cfield = 2 * 16 * (long)std::max<size_t>(1, b.cpos.size() ? 1 : 0);
    b.n_combo = 2 * 6 * 8 * 3 * (long)b.opos.size();
    b.n_ccombo = 2 * 7 * 4 * 3 * (long)b.cpos.size();
    b.n_tail = 3 * 14;
    if (m == 0) b.n_sbyte = b.n_s16 = b.n_s32 = b.n_strunc = b.n_sblock = b.n_osize = b.n_cfield = b.n_combo = b.n_ccombo = b.n_tail = 0;
}

static void put_le(twin::Bytes & v, size_t off, uint64_t val, int w) { for (int i = 0; i < w && off + i < v.size(); i++) v[off + i] = (uint8_t)(val >> (8 * i)); }
static uint64_t get_le(const twin::Bytes & v, size_t off, int w) { uint64_t x = 0; for (int i = 0; i < w && off + i < v.size(); i++) x |= (uint64_t)v[off + i] << (8 * i); return x; }
static uint64_t field_val(uint64_t old, int k, int w) { uint64_t mask = w >= 8 ? ~0ULL : ((1ULL << (8 * w)) - 1); uint64_t v = k < 5 ? (k == 2 ? (mask >> 1) : k == 3 ? (mask >> 1) + 1 : BVW[k]) : k == 5 ? old - 1 : old + 1; return v & mask; }

// wrap a (mutated) stream again: same container cut as the original file where possible
static twin::Bytes rewrap(const C10Base & b, const twin::Bytes & s, int level) {
    size_t cs = 0; if (!b.cpos.empty()) cs = twin::get32(&b.file[b.cpos[0] + 24]);
    if (cs == 0) cs = s.size() ? s.size() : 1;
    twin::Bytes out(b.file.begin(), b.file.begin() + 144);
    for (size_t i = 0; i < s.size(); i += cs) { twin::Bytes c = twin::container(s.data() + i, std::min(cs, s.size() - i), level); out.insert(out.end(), c.begin(), c.end()); }
    return out;
}

static twin::Bytes c10_mutant(const C10Base & b, long j, std::string & kind) {
    twin::Bytes f = b.file; size_t n = f.size();
    if (j < b.n_fbyte) { kind = "file-byte"; size_t o = (size_t)(j / 5); f[o] = BV8[j % 5]; return f; } j -= b.n_fbyte;
    if (j < b.n_f16) { kind = "file-field16"; size_t o = 2 * (size_t)(j / 7); put_le(f, o, field_val(get_le(f, o, 2), (int)(j % 7), 2), 2); return f; } j -= b.n_f16;
    if (j < b.n_f32) { kind = "file-field32"; size_t o = 4 * (size_t)(j / 7); put_le(f, o, field_val(get_le(f, o, 4), (int)(j % 7), 4), 4); return f; } j -= b.n_f32;
    if (j < b.n_ftrunc) { kind = "file-truncation"; f.resize((size_t)j); return f; } j -= b.n_ftrunc;
    if (j < b.n_fblock) {
        kind = "file-container-block"; size_t i = (size_t)(j / 3); int op = (int)(j % 3);
        twin::Bytes blk(f.begin() + b.cpos[i], f.begin() + b.cend[i]);
        if (op == 0) f.insert(f.begin() + b.cend[i], blk.begin(), blk.end());
        else if (op == 1) f.erase(f.begin() + b.cpos[i], f.begin() + b.cend[i]);
        else if (i + 1 < b.cpos.size()) { twin::Bytes nx(f.begin() + b.cpos[i + 1], f.begin() + b.cend[i + 1]); twin::Bytes g(f.begin(), f.begin() + b.cpos[i]); g.insert(g.end(), nx.begin(), nx.end()); g.insert(g.end(), blk.begin(), blk.end()); g.insert(g.end(), f.begin() + b.cend[i + 1], f.end()); f = g; }
        return f;
    } j -= b.n_fblock;
    twin::Bytes s = b.stream; size_t m = s.size(); (void)n;
    if (j < b.n_sbyte) { kind = "stream-byte"; int level = (j % 2) ? 6 : 0; j /= 2; s[(size_t)(j / 5)] = BV8[j % 5]; return rewrap(b, s, level); } j -= b.n_sbyte;
    if (j < b.n_s16) { kind = "stream-field16"; size_t o = 2 * (size_t)(j / 7); put_le(s, o, field_val(get_le(s, o, 2), (int)(j % 7), 2), 2); return rewrap(b, s, 0); } j -= b.n_s16;
    if (j < b.n_s32) { kind = "stream-field32"; int level = (j % 2) ? 6 : 0; j /= 2; size_t o = 4 * (size_t)(j / 7); put_le(s, o, field_val(get_le(s, o, 4), (int)(j % 7), 4), 4); return rewrap(b, s, level); } j -= b.n_s32;
    if (j < b.n_strunc) { kind = "stream-truncation"; int level = (j % 2) ? 6 : 0; j /= 2; s.resize((size_t)j); return rewrap(b, s, level); } j -= b.n_strunc;
    if (j < b.n_sblock) {
        kind = "stream-object-block"; size_t i = (size_t)(j / 3); int op = (int)(j % 3);
        size_t a = b.opos[i], e = i + 1 < b.opos.size() ? b.opos[i + 1] : m;
        twin::Bytes blk(s.begin() + a, s.begin() + e);
        if (op == 0) s.insert(s.begin() + e, blk.begin(), blk.end());
        else if (op == 1) s.erase(s.begin() + a, s.begin() + e);
        else if (i + 1 < b.opos.size()) { size_t e2 = i + 2 < b.opos.size() ? b.opos[i + 2] : m; twin::Bytes nx(s.begin() + e, s.begin() + e2); twin::Bytes g(s.begin(), s.begin() + a); g.insert(g.end(), nx.begin(), nx.end()); g.insert(g.end(), blk.begin(), blk.end()); g.insert(g.end(), s.begin() + e2, s.end()); s = g; }
        return rewrap(b, s, 0);
    } j -= b.n_sblock;
    if (j < b.n_osize) {
        kind = "stream-objectSize"; int level = (j % 2) ? 6 : 0; j /= 2; size_t i = (size_t)(j / 21); int k = (int)(j % 21);
        uint32_t old = twin::get32(&s[b.opos[i] + 8]); uint32_t v = k < 17 ? (uint32_t)k : k == 17 ? old - 1 : k == 18 ? old + 1 : k == 19 ? 0x7fffffffu : 0xffffffffu;
        put_le(s, b.opos[i] + 8, v, 4); return rewrap(b, s, level);
    } j -= b.n_osize;
    if (j < b.n_combo) {
        // several header fields of one object corrupted together: headerSize x objectSize x headerVersion
        kind = "stream-header-combo"; int level = (j % 2) ? 6 : 0; j /= 2; size_t i = (size_t)(j / (6 * 8 * 3)); long k = j % (6 * 8 * 3);
        static const uint16_t hs[] = {0, 1, 15, 16, 17, 0xffff}; uint32_t old = twin::get32(&s[b.opos[i] + 8]);
        const uint32_t os[] = {0, 1, 15, 16, 17, old - 1, old + 4, 0xffffffffu}; static const uint16_t hv[] = {0, 2, 0xffff};
        put_le(s, b.opos[i] + 4, hs[k % 6], 2); put_le(s, b.opos[i] + 8, os[(k / 6) % 8], 4); if ((k / 48) % 3) put_le(s, b.opos[i] + 6, hv[(k / 48) % 3], 2);
        return rewrap(b, s, level);
    } j -= b.n_combo;
    if (j < b.n_ccombo) {
        // several header fields of one container corrupted together: objectSize x uncompressedSize x method (file level, after re-wrapping)
        kind = "container-header-combo"; int level = (j % 2) ? 6 : 0; j /= 2;
        twin::Bytes w = rewrap(b, s, level);
        std::vector<size_t> cp; { size_t p = 144; while (p + 32 <= w.size()) { uint32_t o = twin::get32(&w[p + 8]); if (o < 32) break; cp.push_back(p); p += o + o % 4; } }
        size_t i = (size_t)(j / 84); long k = j % 84; if (cp.empty()) return w; if (i >= cp.size()) i = cp.size() - 1;
        size_t p = cp[i]; uint32_t osz = twin::get32(&w[p + 8]), us = twin::get32(&w[p + 24]);
        const uint32_t os[] = {0, 16, 31, 32, osz - 1, osz + 1, 0xffffffffu}; const uint32_t uss[] = {0, us - 1, us + 1, 0x7fffffffu}; static const uint16_t ms[] = {0, 1, 2};
        put_le(w, p + 8, os[k % 7], 4); put_le(w, p + 24, uss[(k / 7) % 4], 4); put_le(w, p + 16, ms[(k / 28) % 3], 2);
        return w;
    } j -= b.n_ccombo;
    if (j < b.n_tail) {
        // signature fragments and stray bytes at the very end of the object stream (re-wrapped, method 0 / 2) or of the file
        kind = "trailing-fragment"; int where = (int)(j % 3); long k = j / 3;
        static const char * tails[] = {"L", "LO", "LOB", "LOBJ", "xL", "xLO", "xLOB", "LL", "LOL", "LOBL", "LOBJLOB", "xxxL", "xxLO", "xLOBJ"};
        std::string t = tails[k % 14]; for (auto & ch : t) if (ch == 'x') ch = 0;
        if (where == 2) { f.insert(f.end(), t.begin(), t.end()); return f; }
        s.insert(s.end(), t.begin(), t.end());
        return rewrap(b, s, where ? 6 : 0);
    } j -= b.n_tail;
    {   // inconsistent container fields on the first container, method 0 and 2 wrapping
        kind = "container-field"; int level = (j % 2) ? 6 : 0; j /= 2;
        twin::Bytes w = rewrap(b, s, level);
        if (w.size() < 144 + 32) return w;
        uint32_t osz = twin::get32(&w[144 + 8]), us = twin::get32(&w[144 + 24]);
        switch (j) {
        case 0: put_le(w, 144 + 24, 0, 4); break; case 1: put_le(w, 144 + 24, us - 1, 4); break; case 2: put_le(w, 144 + 24, us + 1, 4); break; case 3: put_le(w, 144 + 24, us * 2, 4); break;
        case 4: put_le(w, 144 + 24, 0x7fffffff, 4); break; case 5: put_le(w, 144 + 24, 0xffffffff, 4); break;
        case 6: put_le(w, 144 + 8, 0, 4); break; case 7: put_le(w, 144 + 8, 31, 4); break; case 8: put_le(w, 144 + 8, 32, 4); break; case 9: put_le(w, 144 + 8, osz - 1, 4); break;
        case 10: put_le(w, 144 + 8, osz + 1, 4); break; case 11: put_le(w, 144 + 8, 0xffffffff, 4); break;
        case 12: put_le(w, 144 + 16, 1, 2); break; case 13: put_le(w, 144 + 16, 3, 2); break; case 14: put_le(w, 144 + 16, level ? 0 : 2, 2); break; default: put_le(w, 144 + 16, 0xffff, 2); break;
        }
        return w;
    }
}

static int run_c10(uint64_t seed, long from, long to, const char * listfile, long stride, bool count_only) {
    std::vector<std::string> files; { std::ifstream l(listfile); std::string s; while (std::getline(l, s)) if (!s.empty()) files.push_back(s); }
    std::vector<C10Base> bases(files.size()); std::vector<long> bstart, tstart; long btotal = 0, ttotal = 0;
    for (size_t i = 0; i < files.size(); i++) { bases[i].file = twin::load(files[i]); c10_prepare(bases[i]); bstart.push_back(btotal); btotal += bases[i].bulk_total(); tstart.push_back(ttotal); ttotal += bases[i].targeted_total(); }
    long nbulk = (btotal + stride - 1) / stride;
    long ncases = nbulk + ttotal; long total = btotal + ttotal;
    if (count_only) { printf("%ld %ld %ld\n", ncases, total, ttotal); return 0; }
    std::string path = tmp_path("c10");
    g_new_cap = 256u << 20;
    long sessions = 0, opened = 0, threw = 0, objects = 0; std::map<std::string, long> kinds; std::string sample;
    long phase = (long)(Rng::mix(seed, 0xC10) % (uint64_t)stride);
    // one mutant = one session; returns the context line
    auto one = [&](long c, bool counted) -> std::string {
        size_t bi = 0; long j;
        if (c < nbulk) { long g = c * stride + phase; if (g >= btotal) g = btotal - 1; while (bi + 1 < bases.size() && bstart[bi + 1] <= g) bi++; j = bases[bi].unify(g - bstart[bi], true); }
        else { long g = c - nbulk; while (bi + 1 < bases.size() && tstart[bi + 1] <= g) bi++; j = bases[bi].unify(g - tstart[bi], false); }
        std::string kind; twin::Bytes mut = c10_mutant(bases[bi], j, kind);
        twin::save(path, mut);
        std::string ctx = kind + " #" + std::to_string(j) + " of " + files[bi].substr(files[bi].rfind('/') + 1) + " (" + std::to_string(mut.size()) + " bytes) case=" + std::to_string(c);
        wd::arm(60, ("c10:" + kind).c_str()); wd::note(ctx.c_str());
        std::string key;
        long limit = 64 * (long)mut.size() + 4096;
        try {
            File f; bool open_ok = false;
            if (c % 2) f.verifSetLimits(1 + (uint32_t)(c / 2) % 3, 64 << ((c / 6) % 4));      // workers blocked on full buffers when the input turns bad
            try { f.open(path.c_str(), std::ios_base::in); open_ok = f.is_open(); } catch (Vector::BLF::Exception &) { if (counted) threw++; }
            if (open_ok) {
                if (counted) opened++;
                long k = 0;
                while (ObjectHeaderBase * o = f.read()) { delete o; if (counted) objects++; if (++k > limit) { key = "unbounded-object-stream"; break; } }
                f.close();
            }
        } catch (Vector::BLF::Exception & e) { key = "library-exception-escapes-read-or-close"; ctx += std::string(" what=") + e.what(); }
        catch (std::bad_alloc &) { key = "bad_alloc-escapes"; }
        catch (std::exception & e) { key = "foreign-exception-escapes"; ctx += std::string(" what=") + e.what(); }
        if (!key.empty() && counted) hc::viol(key + ":" + kind, ctx);
        if (counted) { sessions++; kinds[kind]++; if (sample.empty() || c % 4999 == 0) sample = ctx; }
        wd::disarm();
        return ctx;
    };
    // LeakSanitizer as a monitor: after every window of sessions nothing the library allocated may be unreachable. The supervisor
    // narrows a hit down by running the window's sessions one per process (window 1), which also yields the allocation stack.
    long leak_checks = 0, leak_window = getenv("VERIF_LEAK_WINDOW") ? atol(getenv("VERIF_LEAK_WINDOW")) : 64; bool leak_reported = false;
    auto leak_check = [&](long a, long b) {
#ifdef VERIF_HAVE_LSAN
        if (leak_reported || a >= b) return;
        leak_checks++;
        if (!__lsan_do_recoverable_leak_check()) return;
        leak_reported = true;      // later reports would repeat the same blocks
        hc::viol("memory-leaked-by-session-on-corrupt-input", "window " + std::to_string(a) + " " + std::to_string(b) + " : LeakSanitizer found unreachable blocks after these sessions");
#else
        (void)a; (void)b;
#endif
    };
    long wstart = from;
    for (long c = from; c < to && c < ncases; c++) {
        hc::begin_case(std::to_string(c));
        one(c, true);
        if (c + 1 - wstart >= leak_window) { leak_check(wstart, c + 1); wstart = c + 1; }
    }
    leak_check(wstart, std::min(to, ncases));
    unlink(path.c_str());
    std::ostringstream o; o << "{\"sessions\":" << sessions << ",\"opened\":" << opened << ",\"open_threw\":" << threw << ",\"objects_delivered\":" << objects << ",\"alloc_cap_hits\":" << g_new_cap_hits << ",\"leak_checks\":" << leak_checks << ",\"kinds\":{";
    bool first = true; for (auto & kv : kinds) { o << (first ? "" : ",") << "\"" << kv.first << "\":" << kv.second; first = false; }
    o << "},\"samples\":[" << hc::jstr(sample) << "]}";
    hc::stat(o.str());
    fflush(stdout); hc::cov_flush(); _exit(0);      // the leak monitor above has had the last word; LeakSanitizer's own pass at exit would repeat it
}

// ---------------------------------------------------------------------------------------------------------------- C14
#ifdef WITH_ALLOC
#include "alloc.h"
#endif
static void c14_sequence(sg::Seq & s, uint64_t seed, long idx) {
    if (idx < vr::nclasses) {      // a default-constructed object of every class, framed by two populated ones
        Rng r(Rng::mix(seed ^ 0xC14, (uint64_t)idx));
        for (int k = 0; k < 3; k++) {
            const vr::ClassInfo * ci = k == 1 ? &vr::classes[idx] : &vr::classes[r.below(vr::nclasses)];
            ObjectHeaderBase * o = ci->make(); Obj ob(ci, o);
            if (k != 1) { ol::GenOpts g; g.populate_inactive = true; g.max_len = 300; ol::randomise(ob, r, g); }
            s.objs.push_back(o); s.cis.push_back(ci);
        }
    } else sg::make_sequence(s, seed, idx, 25, false, 20000);
}
static sg::Config c14_config(uint64_t seed, long idx) { sg::Config c = sg::make_config(seed, idx * 31 + 7); if (c.C < 16) c.C = 16 + (uint32_t)(idx % 50); c.tiny_limits = (idx % 3 == 0); return c; }

// c14w: write file <dir>/<idx>.<tag>.blf for idx in [from,to); heap poison pattern applies when built with the ledger
static int run_c14w(uint64_t seed, long from, long to, const char * dir, const char * tag, unsigned pattern, bool repeat) {
#ifdef WITH_ALLOC
    if (pattern <= 0xff) alloc_set_poison(1, (uint8_t)pattern, (uint8_t)~pattern);
#endif
    ol::spec_selfcheck();
    long files = 0, repeats_equal = 0;
    for (long idx = from; idx < to; idx++) {
        hc::begin_case(std::to_string(idx));
        wd::arm(120, "c14-session");
        sg::Seq s; c14_sequence(s, seed, idx); sg::Config c = c14_config(seed, idx);
        if (idx % 3 == 0) {     // the object stream ends exactly on a container boundary (1, 2 or 3 full containers)
            size_t L = 0; for (size_t i = 0; i < s.objs.size(); i++) L += sg::encode(s.objs[i], s.cis[i]).size();
            size_t k = 1 + (size_t)(idx / 3) % 3; if (L >= 16 * k && L % k == 0) c.C = (uint32_t)(L / k); else if (L >= 16) c.C = (uint32_t)L;
        }
        std::string path = std::string(dir) + "/" + std::to_string(idx) + "." + tag + ".blf";
        std::string e = write_file(path, s, c, nullptr, nullptr, nullptr, 0, idx % 4 == 1);      // every fourth file: the level is configured after open(), before the first write
        if (!e.empty()) { hc::viol("write-session:" + e, c.str()); continue; }
        if (repeat) {   // same sequence again in this process after unrelated allocation churn
            twin::Bytes first = twin::load(path);
            { std::vector<std::vector<char>> churn; Rng r(idx); for (int i = 0; i < 200; i++) churn.push_back(std::vector<char>(1 + r.below(5000), (char)r.next())); }
            std::string p2 = path + ".again";
            { twin::Bytes old = first; old.insert(old.end(), first.begin(), first.end()); old.insert(old.end(), 4096, 0x5A); twin::save(p2, old); }   // the path already holds a longer file from an earlier session
            write_file(p2, s, c, nullptr, nullptr, nullptr, 30, idx % 4 == 1);      // same objects, different pacing
            twin::Bytes second = twin::load(p2); unlink(p2.c_str());
            if (first != second) { size_t off = 0; while (off < first.size() && off < second.size() && first[off] == second[off]) off++; hc::viol("differs-on-repetition-in-process", "offset " + std::to_string(off) + " [" + c.str() + "] case=" + std::to_string(idx) + " " + sg::describe_seq(s, 4)); }
            else repeats_equal++;
            if (idx % 4 == 1) {     // the same configuration given entirely before open(): the moment a setting is assigned is not part of the configuration
                std::string p3 = path + ".early"; write_file(p3, s, c); twin::Bytes third = twin::load(p3); unlink(p3.c_str());
                if (first != third) { size_t off = 0; while (off < first.size() && off < third.size() && first[off] == third[off]) off++; hc::viol("differs-when-level-is-set-after-open", "offset " + std::to_string(off) + " [" + c.str() + "] case=" + std::to_string(idx)); }
                else repeats_equal++;
            }
        }
        // sidecar: object boundaries in the uncompressed stream and class names, for attributing a differing offset
        std::ofstream m((path + ".meta").c_str());
        size_t off = 0; m << c.level << " " << c.C << " " << (c.trailer ? 1 : 0) << "\n";
        for (size_t i = 0; i < s.objs.size(); i++) { std::vector<uint8_t> enc = sg::encode(s.objs[i], s.cis[i]); off += enc.size(); m << s.cis[i]->name << " " << off << "\n"; }
        files++;
        wd::disarm();
    }
    hc::stat("{\"files\":" + std::to_string(files) + ",\"repetitions_equal\":" + std::to_string(repeats_equal) + "}");
    return 0;
}
// attr: which member produces byte <off> of the encoding of object <obj> of sequence <idx>
static int run_c14attr(uint64_t seed, long idx, long obj, long off) {
    sg::Seq s; c14_sequence(s, seed, idx);
    if (obj >= (long)s.objs.size()) return 2;
    ObjectHeaderBase * o = s.cis[obj]->clone(s.objs[obj]); Obj ob(s.cis[obj], o);
    MemFile mf; mf.trace = true; o->write(mf);
    std::string who = "<not-a-member(padding or temporary)>";
    for (auto & c : mf.wr) if ((size_t)off >= c.off && (size_t)off < c.off + c.n) {
        const uint8_t * sp = static_cast<const uint8_t *>(c.src) + (off - c.off);
        for (auto & f : ob.f) { if (f.variable()) { if (f.nbytes() && sp >= f.data() && sp < f.data() + f.nbytes()) who = f.path; } else { const uint8_t * p = static_cast<const uint8_t *>(f.ptr); if (sp >= p && sp < p + f.elem * f.n) who = f.path; } }
    }
    printf("%s\n", who.c_str());
    delete o; return 0;
}

int main(int argc, char ** argv) {
    hc::out_init();
    if (argc < 3) return 2;
    const char * tmp = getenv("VERIF_TMP"); g_dir = tmp ? tmp : "/dev/shm";
    wd::start();
    g_new_cap = hc::env_u64("VERIF_NEWCAP", 0);
    std::string mode = argv[1]; uint64_t seed = strtoull(argv[2], nullptr, 0);
    if (mode == "c08count") return run_c08(seed, 0, 0, atoi(argv[3]), true);
    if (argc < 5) return 2;
    long from = atol(argv[3]), to = atol(argv[4]);
    if (mode == "c01") return run_c01(seed, from, to);
    if (mode == "gen") return run_gen(seed, from, to, argv[5], atol(argv[6]));
    if (mode == "c05r") return run_c05r(from, to, argv[5]);
    if (mode == "ids") return run_ids(from, to, argv[5]);
    if (mode == "c14w") return run_c14w(seed, from, to, argv[5], argv[6], (unsigned)strtoul(argv[7], nullptr, 16), argc > 8 && atoi(argv[8]));
    if (mode == "c14attr") return run_c14attr(seed, from, to, atol(argv[5]));
    if (mode == "c10") return run_c10(seed, from, to, argv[5], atol(argv[6]), false);
    if (mode == "c10count") return run_c10(seed, 0, 0, argv[5], atol(argv[6]), true);
    if (mode == "c08") return run_c08(seed, from, to, atoi(argv[5]), false);
    return 2;
}
