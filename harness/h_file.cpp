// File-level monitors through the public File API (native threads, ASan/UBSan build):
//   c01  <seed> <from> <to>                 write-then-read sessions, field-by-field comparison (reflection)
//   gen  <seed> <from> <to> <dir> <K>       write files + sidecars (.E concatenated encodings, .json meta) for the python oracles
//                                           (case idx -> sequence idx / K, configuration idx % K); also re-reads each file (reader counters)
//   c05r <seed> <from> <to> <listfile>      consume reference logs, report reader counters vs header
//   c08  <seed> <from> <to> <nbase>         every truncation offset of library-written base files (case = global offset index)
//   c08count <seed> <nbase>                 print number of cases
#include <Vector/BLF.h>
#include <fstream>
#include <set>
#include "hcommon.h"
#include "seqgen.h"
#include "twin.h"
#include "watchdog.h"
#define NEWCAP_IMPL
#include "newcap.h"

using namespace Vector::BLF;
using ol::Obj;

static std::string g_dir;

static std::string tmp_path(const char * tag) { return g_dir + "/" + tag + "." + std::to_string(getpid()) + ".blf"; }

// write a sequence through the File API; ownership of clones passes to the library. returns error text or ""
static std::string write_file(const std::string & path, const sg::Seq & s, const sg::Config & c, File * keep = nullptr,
                              void (*prep)(File &, void *) = nullptr, void * arg = nullptr) {
    File local; File & f = keep ? *keep : local;
    f.compressionLevel = c.level; f.writeRestorePoints = c.trailer; f.setDefaultLogContainerSize(c.C);
    if (c.tiny_limits) f.verifSetLimits(c.Q, c.B);
    if (prep) prep(f, arg);
    f.open(path.c_str(), std::ios_base::out);
    if (!f.is_open()) return "open(out) failed";
    for (size_t i = 0; i < s.objs.size(); i++) f.write(s.cis[i]->clone(s.objs[i]));
    f.close();
    if (f.is_open()) return "still open after close";
    return "";
}

static std::string cfgclass(const sg::Config & c) {
    return std::string(c.C < 64 ? "tinyC" : c.C < 0x20000 ? "C<buffer" : c.C == 0x20000 ? "C=buffer" : "C>buffer") + (c.level ? "" : ",level0");
}

// ---------------------------------------------------------------------------------------------------------------- C01
static int run_c01(uint64_t seed, long from, long to) {
    ol::spec_selfcheck();
    std::string path = tmp_path("c01");
    long sessions = 0, objects = 0, big = 0; std::set<std::string> shapes; std::map<std::string, long> perclass; std::set<int> levels; std::set<uint32_t> csizes; std::string sample;
    for (long idx = from; idx < to; idx++) {
        hc::begin_case(std::to_string(idx));
        wd::arm(120, "c01-session");
        sg::Config c = sg::make_config(seed, idx);
        sg::Seq s; sg::make_sequence(s, seed, idx, c.C < 16 ? 12 : 40, true, std::min<size_t>(3u << 20, (size_t)c.C * 2000));   // the stream stages scan their container list per chunk: keep #containers tractable
        std::string ctx = " [" + c.str() + "] case=" + std::to_string(idx) + " " + sg::describe_seq(s, 4);
        wd::note(ctx.c_str());
        std::string e = write_file(path, s, c);
        if (!e.empty()) { hc::viol("write-session:" + e, ctx); continue; }
        {
            File f;
            if (c.tiny_limits) f.verifSetLimits(c.Q, c.B);
            f.open(path.c_str(), std::ios_base::in);
            if (!f.is_open()) { hc::viol("reopen-failed", ctx); continue; }
            size_t i = 0; bool bad = false;
            for (;; i++) {
                ObjectHeaderBase * o = f.read();
                if (!o) break;
                if (i >= s.objs.size()) { hc::viol("more-objects-than-written:" + cfgclass(c), "extra object type " + std::to_string((unsigned)o->objectType) + ctx); delete o; bad = true; break; }
                const vr::ClassInfo * ci = ol::class_of(o);
                if (ci != s.cis[i]) { hc::viol(std::string("class-changed:") + s.cis[i]->name, std::string("read back as ") + (ci ? ci->name : "?") + " at " + std::to_string(i) + ctx); delete o; bad = true; break; }
                Obj a(s.cis[i], s.objs[i]), b(ci, o);
                auto d = ol::compare(a, b);
                if (!d.empty()) {
                    hc::viol(std::string("field-changed:") + ci->name + ":" + d[0].path, "wrote " + d[0].a + " read " + d[0].b + " object " + std::to_string(i) + " " + ol::describe(a, 300) + ctx);
                    bad = true;
                }
                if (!f.good() || f.eof()) { hc::viol("flags-after-object", ctx); bad = true; }
                shapes.insert(ol::shape(a)); perclass[ci->name]++;
                delete o; objects++;
                if (bad) break;
            }
            if (!bad) {
                if (i != s.objs.size()) hc::viol("objects-missing:" + cfgclass(c), "read " + std::to_string(i) + " of " + std::to_string(s.objs.size()) + (i < s.objs.size() ? std::string(" next would be ") + s.cis[i]->name : "") + ctx);
                else if (f.good() || !f.eof()) hc::viol("flags-after-end", "good=" + std::to_string(f.good()) + " eof=" + std::to_string(f.eof()) + ctx);
                else { ObjectHeaderBase * o = f.read(); if (o) { hc::viol("object-after-end", ctx); delete o; } }
            }
            f.close();
        }
        sessions++; levels.insert(c.level); csizes.insert(c.C);
        if (sample.empty() || idx % 101 == 0) sample = "[" + c.str() + "] " + sg::describe_seq(s, 5);
        wd::disarm();
    }
    unlink(path.c_str());
    long minc = -1; for (int i = 0; i < vr::nclasses; i++) { long n = perclass.count(vr::classes[i].name) ? perclass[vr::classes[i].name] : 0; if (minc < 0 || n < minc) minc = n; }
    std::ostringstream o; o << "{\"sessions\":" << sessions << ",\"objects\":" << objects << ",\"classes_seen\":" << perclass.size() << ",\"min_per_class\":" << minc << ",\"levels\":[";
    { bool f = true; for (int l : levels) { o << (f ? "" : ",") << l; f = false; } } o << "],\"container_sizes\":[";
    { bool f = true; for (uint32_t l : csizes) { o << (f ? "" : ",") << l; f = false; } } o << "],\"shapes\":[";
    { int k = 0; for (auto & sname : shapes) { if (k++) o << ","; o << hc::jstr(sname); if (k > 3000) break; } }
    o << "],\"samples\":[" << hc::jstr(sample) << "]}";
    hc::stat(o.str());
    return 0;
}

// ---------------------------------------------------------------------------------------------------------------- gen (C04/C05/C14)
struct HdrVals { uint32_t apiNumber; uint8_t applicationId, compressionLevel, applicationMajor, applicationMinor; uint32_t applicationBuild; uint16_t t1[8], t2[8]; };

static void set_header(File & f, void * arg) {
    HdrVals * h = static_cast<HdrVals *>(arg);
    f.fileStatistics.apiNumber = h->apiNumber; f.fileStatistics.applicationId = h->applicationId; f.fileStatistics.compressionLevel = h->compressionLevel;
    f.fileStatistics.applicationMajor = h->applicationMajor; f.fileStatistics.applicationMinor = h->applicationMinor; f.fileStatistics.applicationBuild = h->applicationBuild;
    SYSTEMTIME * st[2] = {&f.fileStatistics.measurementStartTime, &f.fileStatistics.lastObjectTime}; uint16_t * src[2] = {h->t1, h->t2};
    for (int k = 0; k < 2; k++) { st[k]->year = src[k][0]; st[k]->month = src[k][1]; st[k]->dayOfWeek = src[k][2]; st[k]->day = src[k][3]; st[k]->hour = src[k][4]; st[k]->minute = src[k][5]; st[k]->second = src[k][6]; st[k]->milliseconds = src[k][7]; }
}

static int run_gen(uint64_t seed, long from, long to, const std::string & dir, long K) {
    ol::spec_selfcheck();
    long files = 0;
    for (long idx = from; idx < to; idx++) {
        hc::begin_case(std::to_string(idx));
        wd::arm(120, "gen-session");
        long sidx = idx / K, k = idx % K;
        sg::Config c = sg::make_config(seed, sidx * 7 + k * 13 + k);    // K different configurations for the same sequence
        if (k == 0) { c.level = (int)(sidx % 10); }
        // every other sequence is small enough for the tiny container sizes; the others only meet containers >= 100 bytes
        bool small = (sidx % 2 == 0);
        if (!small && c.C < 100) c.C = sg::CSIZES[5 + (sidx + k) % 7];
        sg::Seq s; sg::make_sequence(s, seed, sidx, small ? 8 : 30, !small && (sidx % 4) == 1, small ? 2500 : 200000);
        Rng r(Rng::mix(seed ^ 0x4EAD, (uint64_t)idx));
        HdrVals h; h.apiNumber = (uint32_t)ol::boundary_value(r, 4); h.applicationId = (uint8_t)ol::boundary_value(r, 1); h.compressionLevel = (uint8_t)ol::boundary_value(r, 1);
        h.applicationMajor = (uint8_t)ol::boundary_value(r, 1); h.applicationMinor = (uint8_t)ol::boundary_value(r, 1); h.applicationBuild = (uint32_t)ol::boundary_value(r, 4);
        for (int i = 0; i < 8; i++) { h.t1[i] = (uint16_t)ol::boundary_value(r, 2); h.t2[i] = (uint16_t)ol::boundary_value(r, 2); }
        std::string base = dir + "/" + std::to_string(idx);
        std::string ctx = " [" + c.str() + "] case=" + std::to_string(idx);
        wd::note(ctx.c_str());
        // concatenated encodings, obtained independently of the pipeline on the harness thread
        std::vector<uint8_t> E; long n115 = 0; std::vector<size_t> ends;
        for (size_t i = 0; i < s.objs.size(); i++) { std::vector<uint8_t> e = sg::encode(s.objs[i], s.cis[i]); E.insert(E.end(), e.begin(), e.end()); ends.push_back(E.size()); if ((unsigned)s.objs[i]->objectType == 115) n115++; }
        uint64_t w_usize, w_count, w_fsize, w_rpo; uint64_t w_cur_usize; uint32_t w_cur_count;
        {
            File f;
            std::string e = write_file(base + ".blf", s, c, &f, set_header, &h);
            if (!e.empty()) { hc::viol("write-session:" + e, ctx); continue; }
            w_usize = f.fileStatistics.uncompressedFileSize; w_count = f.fileStatistics.objectCount; w_fsize = f.fileStatistics.fileSize; w_rpo = f.fileStatistics.restorePointsOffset;
            w_cur_usize = f.currentUncompressedFileSize; w_cur_count = f.currentObjectCount;
        }
        // reader side on the library-written file
        uint64_t r_usize = 0, r_hdr_usize = 0; uint32_t r_count = 0, r_hdr_count = 0; long r_objects = 0;
        {
            File f; f.open((base + ".blf").c_str(), std::ios_base::in);
            if (f.is_open()) { while (ObjectHeaderBase * o = f.read()) { delete o; r_objects++; } r_hdr_usize = f.fileStatistics.uncompressedFileSize; r_hdr_count = f.fileStatistics.objectCount; f.close(); r_usize = f.currentUncompressedFileSize; r_count = f.currentObjectCount; }
            else hc::viol("reopen-failed", ctx);
        }
        { std::ofstream e((base + ".E").c_str(), std::ios::binary); e.write((const char *)E.data(), (std::streamsize)E.size()); }
        std::ostringstream j;
        j << "{\"idx\":" << idx << ",\"seq\":" << sidx << ",\"level\":" << c.level << ",\"C\":" << c.C << ",\"trailer\":" << (c.trailer ? 1 : 0) << ",\"nobj\":" << s.objs.size() << ",\"n115\":" << n115
          << ",\"apiNumber\":" << h.apiNumber << ",\"applicationId\":" << (unsigned)h.applicationId << ",\"hdrCompressionLevel\":" << (unsigned)h.compressionLevel << ",\"applicationMajor\":" << (unsigned)h.applicationMajor
          << ",\"applicationMinor\":" << (unsigned)h.applicationMinor << ",\"applicationBuild\":" << h.applicationBuild << ",\"t1\":[";
        for (int i = 0; i < 8; i++) j << (i ? "," : "") << h.t1[i]; j << "],\"t2\":["; for (int i = 0; i < 8; i++) j << (i ? "," : "") << h.t2[i];
        j << "],\"w_usize\":" << w_usize << ",\"w_count\":" << w_count << ",\"w_fsize\":" << w_fsize << ",\"w_rpo\":" << w_rpo << ",\"w_cur_usize\":" << w_cur_usize << ",\"w_cur_count\":" << w_cur_count
          << ",\"r_usize\":" << r_usize << ",\"r_count\":" << r_count << ",\"r_hdr_usize\":" << r_hdr_usize << ",\"r_hdr_count\":" << r_hdr_count << ",\"r_objects\":" << r_objects
          << ",\"shape\":" << hc::jstr(sg::describe_seq(s, 3)) << ",\"ends\":[";
        for (size_t i = 0; i < ends.size(); i++) j << (i ? "," : "") << ends[i];
        j << "]}";
        { std::ofstream m((base + ".json").c_str()); m << j.str(); }
        files++;
        wd::disarm();
    }
    hc::stat("{\"files\":" + std::to_string(files) + "}");
    return 0;
}

// ---------------------------------------------------------------------------------------------------------------- c05r
static int run_c05r(long from, long to, const char * listfile) {
    std::vector<std::string> files; { std::ifstream l(listfile); std::string s; while (std::getline(l, s)) if (!s.empty()) files.push_back(s); }
    for (long i = from; i < to && i < (long)files.size(); i++) {
        hc::begin_case(std::to_string(i));
        wd::arm(60, "c05r"); wd::note(files[i].c_str());
        File f; f.open(files[i].c_str(), std::ios_base::in);
        if (!f.is_open()) { hc::viol("reference-log-not-opened", files[i]); continue; }
        long n = 0, n115 = 0; while (ObjectHeaderBase * o = f.read()) { if ((unsigned)o->objectType == 115) n115++; delete o; n++; }
        uint64_t hu = f.fileStatistics.uncompressedFileSize; uint32_t hc_ = f.fileStatistics.objectCount;
        f.close();
        printf("@ref %ld %llu %u %llu %u %ld %ld\n", i, (unsigned long long)hu, hc_, (unsigned long long)f.currentUncompressedFileSize, (unsigned)f.currentObjectCount, n, n115);
        wd::disarm();
    }
    hc::stat("{\"logs\":" + std::to_string(to - from) + "}");
    return 0;
}

// ---------------------------------------------------------------------------------------------------------------- C08
struct Base { std::vector<uint8_t> file; std::vector<size_t> cont_end; std::vector<size_t> cont_cum; std::vector<size_t> obj_end; sg::Seq seq; sg::Config cfg; bool initial_header; };

static void make_base(uint64_t seed, int b, Base & B, const std::string & path) {
    static const int levels[] = {0, 1, 6, 9}; static const uint32_t cs[] = {16, 100, 1000};
    Rng r(Rng::mix(seed ^ 0xC08, (uint64_t)b));
    B.initial_header = b % 2; B.cfg.level = levels[(b / 2) % 4]; B.cfg.C = cs[(b / 8) % 3]; B.cfg.trailer = (b / 24) % 2; B.cfg.tiny_limits = false; B.cfg.B = 0; B.cfg.Q = 0;
    // 12..30 objects of mixed classes, small payloads, variable-size classes with empty payloads included
    int n = 12 + r.below(19);
    for (int i = 0; i < n; i++) {
        const vr::ClassInfo * ci = &vr::classes[r.below(vr::nclasses)];
        ObjectHeaderBase * o = ci->make(); Obj ob(ci, o);
        ol::GenOpts g; g.fixed_len = r.chance(1, 3) ? 0 : (int)r.below(12);
        ol::randomise(ob, r, g);
        ob.get("objectTimeStamp").set_u64(0x2000000ULL + (uint64_t)i);
        B.seq.objs.push_back(o); B.seq.cis.push_back(ci);
    }
    std::string e = write_file(path, B.seq, B.cfg);
    if (!e.empty()) { fprintf(stderr, "HARNESS: cannot write base file: %s\n", e.c_str()); _exit(2); }
    B.file = twin::load(path);
    if (B.initial_header) { FileStatistics fs; MemFile mf; fs.write(mf); if (mf.buf.size() != 144) { fprintf(stderr, "HARNESS: initial header size\n"); _exit(2); } memcpy(B.file.data(), mf.buf.data(), 144); }
    // container boundaries from the independent parser
    size_t pos = 144, cum = 0;
    while (pos + 32 <= B.file.size()) {
        uint32_t osz = twin::get32(&B.file[pos + 8]), us = twin::get32(&B.file[pos + 24]);
        cum += us; B.cont_end.push_back(pos + osz); B.cont_cum.push_back(cum);
        pos += osz + osz % 4;
    }
    size_t off = 0;
    for (size_t i = 0; i < B.seq.objs.size(); i++) {
        std::vector<uint8_t> enc = sg::encode(B.seq.objs[i], B.seq.cis[i]);
        uint32_t osz = twin::get32(&enc[8]);
        B.obj_end.push_back(off + osz);      // object complete when its objectSize bytes are available (padding is skipped, not read)
        off += enc.size();
    }
}

static int run_c08(uint64_t seed, long from, long to, int nbase, bool count_only) {
    ol::spec_selfcheck();
    std::string path = tmp_path("c08");
    std::vector<Base *> bases; std::vector<long> start; long total = 0;
    for (int b = 0; b < nbase; b++) { Base * B = new Base; make_base(seed, b, *B, path); bases.push_back(B); start.push_back(total); total += (long)B->file.size() + 1; }
    if (count_only) { printf("%ld\n", total); return 0; }
    long sessions = 0, threw = 0, delivered = 0, nonempty = 0; std::set<long> distinct_counts; std::string sample;
    for (long idx = from; idx < to && idx < total; idx++) {
        hc::begin_case(std::to_string(idx));
        int b = 0; while (b + 1 < nbase && start[b + 1] <= idx) b++;
        Base & B = *bases[b]; size_t L = (size_t)(idx - start[b]);
        wd::arm(30, "c08-session");
        std::string ctx = " base=" + std::to_string(b) + " [" + B.cfg.str() + (B.initial_header ? " initial-header" : "") + "] cut=" + std::to_string(L) + "/" + std::to_string(B.file.size());
        wd::note(ctx.c_str());
        twin::Bytes pre(B.file.begin(), B.file.begin() + L); twin::save(path, pre);
        // expectation from the independent container walk
        size_t A = 0; for (size_t i = 0; i < B.cont_end.size(); i++) if (B.cont_end[i] <= L) A = B.cont_cum[i]; else break;
        size_t expect = 0; while (expect < B.obj_end.size() && B.obj_end[expect] <= A) expect++;
        std::string key;
        try {
            File f;
            bool opened = false;
            try { f.open(path.c_str(), std::ios_base::in); opened = f.is_open(); } catch (Vector::BLF::Exception &) { threw++; }
            if (opened) {
                size_t i = 0;
                for (;; i++) {
                    ObjectHeaderBase * o = f.read();
                    if (!o) break;
                    if (i >= expect) { if (key.empty()) key = "object-beyond-stored-containers"; ctx += " extra object " + std::to_string(i) + " type " + std::to_string((unsigned)o->objectType); delete o; continue; }
                    const vr::ClassInfo * ci = ol::class_of(o);
                    if (ci != B.seq.cis[i]) { if (key.empty()) key = "class-changed"; }
                    else { Obj a(ci, B.seq.objs[i]), bb(ci, o); auto d = ol::compare(a, bb); if (!d.empty() && key.empty()) { key = std::string("object-modified:") + ci->name + ":" + d[0].path; ctx += " wrote " + d[0].a + " read " + d[0].b; } }
                    delete o; delivered++;
                }
                if (i < expect && key.empty()) { key = "objects-of-complete-containers-missing"; ctx += " delivered " + std::to_string(i) + " expected " + std::to_string(expect); }
                if (i > 0) nonempty++;
                distinct_counts.insert((long)b * 1000 + (long)i);
                f.close();
            } else if (L >= 144 + 32 && expect > 0) {
                // open refused although complete containers exist: allowed by the property ("either raises the library's exception or succeeds")
            }
        } catch (Vector::BLF::Exception & e) { key = "exception-escapes-outside-open"; ctx += std::string(" what=") + e.what(); }
        catch (std::exception & e) { key = "foreign-exception"; ctx += std::string(" what=") + e.what(); }
        if (!key.empty()) hc::viol(key + (B.initial_header ? ":initial-header" : ""), ctx);
        sessions++;
        if (sample.empty() || idx % 499 == 0) sample = ctx + " -> expected " + std::to_string(expect) + " objects";
        wd::disarm();
    }
    unlink(path.c_str());
    std::ostringstream o; o << "{\"sessions\":" << sessions << ",\"open_threw\":" << threw << ",\"objects_delivered\":" << delivered << ",\"sessions_with_objects\":" << nonempty << ",\"distinct_outcomes\":" << distinct_counts.size() << ",\"bases\":" << nbase << ",\"samples\":[" << hc::jstr(sample) << "]}";
    hc::stat(o.str());
    return 0;
}

int main(int argc, char ** argv) {
    hc::out_init();
    if (argc < 3) return 2;
    const char * tmp = getenv("VERIF_TMP"); g_dir = tmp ? tmp : "/dev/shm";
    wd::start();
    g_new_cap = hc::env_u64("VERIF_NEWCAP", 0);
    std::string mode = argv[1]; uint64_t seed = strtoull(argv[2], nullptr, 0);
    if (mode == "c08count") return run_c08(seed, 0, 0, atoi(argv[3]), true);
    if (argc < 5) return 2;
    long from = atol(argv[3]), to = atol(argv[4]);
    if (mode == "c01") return run_c01(seed, from, to);
    if (mode == "gen") return run_gen(seed, from, to, argv[5], atol(argv[6]));
    if (mode == "c05r") return run_c05r(from, to, argv[5]);
    if (mode == "c08") return run_c08(seed, from, to, atoi(argv[5]), false);
    return 2;
}
