// C12 - buffered data stays bounded: allocation ledger + verifHeld() sampled at quiescence under the schedule controller.
//   mem <seed> <from> <to>     case = configuration index (mode, C, object size, limits); each case runs N in {4,16,64[,256]}
// Read sessions starve the application thread (it only runs when both workers are blocked: the pipeline is as full as it
// gets); write sessions starve the compressed worker. Oracles: held bytes <= max(B,S) + 2C at every sample; flatness of
// peak heap in N beyond saturation; both workers observed blocked at quiescence (coverage gate).
#include <Vector/BLF.h>
#include <sstream>
#include "alloc.h"
#include "hcommon.h"
#include "rng.h"
#include "twin.h"
#include "vsched.h"
#include "watchdog.h"

using namespace Vector::BLF;

struct MCfg { bool writing; uint32_t C; long S; bool shipped; long B; uint32_t Q; int level; int stall_every; bool damaged; bool aligned; bool padcut = false; bool shrink = false; bool restate = false;
    std::string str() const { std::ostringstream s; s << (writing ? "write" : "read") << " C=" << C << " S=" << S << " B=" << (shipped ? 0x20000 : B) << " Q=" << (shipped ? 10 : Q) << " level=" << level << " stall_every=" << stall_every << (damaged ? " damaged-record" : "") << (aligned ? " boundary-aligned-bursts" : "") << (padcut ? " containers-end-in-padding" : "") << (shrink ? " container-size-lowered-mid-session" : "") << (restate ? " container-size-restated-before-every-object" : ""); return s.str(); } };

static MCfg make_cfg(uint64_t seed, long ci) {
    Rng r(Rng::mix(seed ^ 0xC12, (uint64_t)ci));
    MCfg c; c.writing = ci % 2; c.shipped = (ci % 4) >= 2;
    static const uint32_t cs[] = {4096, 16384, 65536, 0x20000, 1 << 20};
    c.C = cs[(ci / 4) % 5];
    if (!c.shipped) { c.B = (long)c.C * (1 + (long)r.below(3)) / 2; c.Q = 1 + r.below(10); } else { c.B = 0x20000; c.Q = 10; }
    c.S = r.chance(1, 2) ? (long)c.C / 8 : (long)c.C / 3 + r.below(100);
    c.level = r.chance(1, 2) ? 1 : 0;
    c.stall_every = 1 + r.below(7);
    c.damaged = !c.writing && (ci % 8) >= 4;
    // bursty producer whose bursts end exactly on container boundaries while the pipeline drains completely in between:
    // 8 objects fill one container and the application (not a worker) is the starved thread
    c.aligned = c.writing && (ci % 8) >= 4;
    if (c.aligned) c.S = (long)c.C / 8 - 48;
    // read side: every container ends inside (or right behind) the alignment padding of an object, so the reader leaves each
    // container by skipping, not by reading
    // write side: the application lowers the container size while the session is running (8C at open(), C after an eighth of the objects)
    c.shrink = c.writing && !c.aligned && (ci % 16) < 8;
    c.restate = c.writing && !c.aligned && !c.shrink && (ci % 32) < 16;      // the application states the (same) container size again before every object
    c.padcut = !c.writing && !c.damaged && (ci % 16) < 8;
    if (c.padcut) c.S += (2 - (c.S + 48) % 4 + 4) % 4;      // objectSize % 4 == 2: two padding bytes after every object
    return c;
}

struct Meas { size_t peak, max_held, max_containers; long samples, quiescent_samples; long objects; std::string err; };

static Meas run_one(const MCfg & c, int N, const std::string & path, uint64_t sseed) {
    Meas m{}; long perC = std::max<long>(1, (long)c.C / (c.S + 48)); long nobj = (long)N * perC;
    long B = c.B, S = c.S + 48;
    if (!c.writing) {
        twin::Bytes stream; for (long i = 0; i < nobj; i++) {
            if (c.damaged && i == nobj / 4) { twin::Bytes bad = twin::unknown_object(1, 8); stream.insert(stream.end(), bad.begin(), bad.end()); }   // objectSize below the header size: the decoder gives up here
            twin::Bytes o = twin::app_text(1000 + (uint32_t)i, (size_t)c.S); stream.insert(stream.end(), o.begin(), o.end()); }
        if (!c.padcut) twin::save(path, twin::wrap(stream, c.C, c.level));
        else {
            twin::Bytes out = twin::file_header(); size_t P = (size_t)S + 2, start = 0; long j = 0;
            while (start < stream.size()) {
                size_t k = (start + c.C) / P; if (k * P <= start) k = start / P + 1;          // last object that ends within about C bytes
                size_t cut = k * P - (j % 2 ? 0 : 1);                                         // one padding byte before / exactly at the padded end
                if (cut > stream.size() || k * P >= stream.size()) cut = stream.size();
                twin::Bytes cc = twin::container(stream.data() + start, cut - start, c.level); out.insert(out.end(), cc.begin(), cc.end());
                start = cut; j++;
            }
            twin::save(path, out);
        }
    }
    size_t base = alloc_live();
    alloc_reset_peak();
    sched_set_budget(0);
    sched_set_timeouts(30);      // virtual time: a timed wait (if the library has any) may expire while the consumer stalls
    sched_begin(sseed, SCHED_STARVE, (c.writing && !c.aligned) ? 2 : 0);
    {
        File f;
        if (!c.shipped) f.verifSetLimits(c.Q, c.B);
        auto sample = [&](bool expect_quiescent) {
            size_t cont, bytes; f.verifHeld(cont, bytes);
            m.samples++;
            if (getenv("VERIF_DEBUG")) fprintf(stderr, "sample %ld: containers=%zu bytes=%zu\n", m.samples, cont, bytes);
            if (bytes > m.max_held) m.max_held = bytes;
            if (cont > m.max_containers) m.max_containers = cont;
            if (expect_quiescent && sched_blocked_in_wait() >= 2) m.quiescent_samples++;
            // read: buffered data + the container being consumed + the one being appended; write: containers are allocated at full size,
            // so the consumed one still held, the one being read and the one being filled count fully
            size_t bound = (size_t)std::max(B, S) + (c.writing ? 3 : 2) * (size_t)c.C * (c.shrink ? 8 : 1);
            if (bytes > bound && m.err.empty()) m.err = "held " + std::to_string(bytes) + " bytes in " + std::to_string(cont) + " containers > max(B,S)+" + (c.writing ? "3" : "2") + "C = " + std::to_string(bound);
        };
        if (!c.writing) {
            f.open(path.c_str(), std::ios_base::in);
            long i = 0;
            for (;; i++) {
                ObjectHeaderBase * o = f.read();
                if (!o) break;
                delete o;
                if (i % c.stall_every == 0) sample(true);      // app is starved: when it runs, every worker is blocked
            }
            m.objects = i;
            long expect = c.damaged ? nobj / 4 : nobj;
            if (i != expect && m.err.empty()) m.err = "delivered " + std::to_string(i) + " of " + std::to_string(expect);
            if (c.damaged) for (int k = 0; k < 300; k++) sample(false);     // the application lingers after end of data: every poll lets the workers run as far as they can
            f.close();
        } else {
            f.compressionLevel = c.level; f.setDefaultLogContainerSize(c.shrink ? 8 * c.C : c.C);
            f.open(path.c_str(), std::ios_base::out);
            for (long i = 0; i < nobj; i++) {
                if (c.shrink && i == std::max<long>(1, nobj / 8)) f.setDefaultLogContainerSize(c.C);
                if (c.restate) f.setDefaultLogContainerSize(c.C);
                AppText * t = new AppText; t->objectTimeStamp = (uint64_t)i; t->text.assign((size_t)c.S, (char)('a' + i % 26));
                f.write(t);
                if (i % c.stall_every == 0) sample(false);
            }
            m.objects = nobj;
            f.close();
        }
    }
    int left = sched_end();
    if (left && m.err.empty()) m.err = "threads left behind";
    m.peak = alloc_peak() - std::min(alloc_peak(), base);
    size_t after = alloc_live();
    if (after > base + 4096 && m.err.empty()) m.err = "live heap grew by " + std::to_string(after - base) + " bytes over the session";
    return m;
}

int main(int argc, char ** argv) {
    hc::out_init();
    if (argc < 5) return 2;
    uint64_t seed = strtoull(argv[2], nullptr, 0); long from = atol(argv[3]), to = atol(argv[4]);
    int maxN = argc > 5 ? atoi(argv[5]) : 64;
    const char * tmp = getenv("VERIF_TMP"); std::string path = std::string(tmp ? tmp : "/dev/shm") + "/mem." + std::to_string(getpid()) + ".blf";
    wd::start();
    sched_on_violation = [](const char * kind, const char * key, const char * report) {
        std::string r = report; for (auto & ch : r) if (ch == '\n') ch = '|';
        printf("@viol %s:%s :: %s\n", kind, key, r.c_str()); fflush(stdout); _exit(42);
    };
    long sessions = 0, samples = 0, quiescent = 0, flat_cmp = 0; std::string sample; std::ostringstream curve;
    {   // warm-up: first-use allocations of the controller, iostreams and the library are not charged to a session
        MCfg w = make_cfg(seed, 0); w.C = 4096; w.S = 100; w.shipped = false; w.B = 4096; w.Q = 2;
        for (int k = 0; k < 2; k++) { w.writing = k; wd::arm(120, "c12-warmup"); run_one(w, 4, path, 1); }
        sched_reset_site_counts();
    }
    for (long ci = from; ci < to; ci++) {
        hc::begin_case(std::to_string(ci));
        MCfg c = make_cfg(seed, ci);
        long B0 = c.B, S0 = c.S + 48; long cbig = (long)c.C * (c.shrink ? 8 : 1); long sat0 = 2 * (std::max(B0, S0) + 2 * cbig + (long)(c.shipped ? 10 : c.Q) * S0);
        int N0 = (int)std::max<long>(4, (sat0 + c.C - 1) / c.C);
        int Ns[] = {N0, 4 * N0, 16 * N0};
        std::vector<std::pair<int, Meas>> ms;
        for (int N : Ns) {
            if (N > maxN && N != N0) break;
            if ((long)N * c.C > (256L << 20)) break;     // keep files below 256 MiB uncompressed
            wd::arm(600, "c12-session"); wd::note((c.str() + " N=" + std::to_string(N)).c_str());
            Meas m = run_one(c, N, path, Rng::mix(seed, (uint64_t)(ci * 1000 + N)));
            sessions++; samples += m.samples; quiescent += m.quiescent_samples;
            if (!m.err.empty()) hc::viol(std::string(c.writing ? "write" : "read") + ":" + (m.err.find("held") == 0 ? "held-bytes-exceed-bound" : m.err.find("live heap") == 0 ? "heap-not-returned" : "session-failed"), m.err + " " + c.str() + " N=" + std::to_string(N));
            ms.push_back({N, m});
        }
        // flatness beyond saturation: N*C >= 2*(max(B,S)+2C)
        std::ostringstream cv; cv << c.str() << " peaks:";
        for (auto & p : ms) cv << " N" << p.first << "=" << p.second.peak << "(held " << p.second.max_held << ")";
        for (size_t i = 0; i < ms.size(); i++) for (size_t j = i + 1; j < ms.size(); j++) {
            if (i == 0) continue;     // the first point (N0) is only just saturated: compare 4*N0 with 16*N0
            flat_cmp++;
            long d = (long)ms[j].second.peak - (long)ms[i].second.peak;
            // Two runs of correct code can differ by as much as the whole legitimate dynamic range: from a pipeline that never got full to
            // one in which everything the property allows is in use at the same moment - the held stream data (bound of the sampler; a held
            // container keeps its compressed copy as well, at level 0 as large as the inflated one), the container in the worker's hands
            // (compressed + inflated copy) and a full object queue plus the object being built. Growth with N is linear and exceeds this
            // within 12*N0 containers (N0*C is at least twice the saturation volume).
            long qcap = c.shipped ? 10 : (long)c.Q;
            long range = 2 * (std::max(B0, S0) + 2 * cbig) + 2 * cbig + (qcap + 1) * S0 + 65536;
            if (d > range)
                hc::viol(std::string(c.writing ? "write" : "read") + ":peak-heap-grows-with-N", "peak(N=" + std::to_string(ms[j].first) + ") - peak(N=" + std::to_string(ms[i].first) + ") = " + std::to_string(d) + " > legitimate dynamic range " + std::to_string(range) + "; " + cv.str());
        }
        if (sample.empty() || ci % 7 == 0) sample = cv.str();
        wd::disarm();
    }
    unlink(path.c_str());
    char sites[2048]; sched_site_counts(sites, sizeof sites);
    std::ostringstream o;
    o << "{\"blocked_at\":{" << sites << "},\"sessions\":" << sessions << ",\"configs\":" << (to - from) << ",\"held_samples\":" << samples << ",\"quiescent_samples\":" << quiescent << ",\"flatness_comparisons\":" << flat_cmp << ",\"samples\":[" << hc::jstr(sample) << "]}";
    hc::stat(o.str());
    return 0;
}
