#include "alloc.h"
#include <malloc.h>
#include <atomic>
#include <cerrno>
#include <cstring>
extern "C" {
void * __libc_malloc(size_t);
void __libc_free(void *);
void * __libc_calloc(size_t, size_t);
void * __libc_realloc(void *, size_t);
void * __libc_memalign(size_t, size_t);
}
namespace {
std::atomic<size_t> live{0}, peak{0}, cap{0};
std::atomic<unsigned long> count{0}, caphits{0};
std::atomic<int> poison{0};
std::atomic<uint8_t> pfresh{0}, pfreed{0};
inline void add(void * p) {
    if (!p) return;
    size_t n = malloc_usable_size(p);
    size_t l = live.fetch_add(n, std::memory_order_relaxed) + n;
    size_t pk = peak.load(std::memory_order_relaxed);
    while (l > pk && !peak.compare_exchange_weak(pk, l, std::memory_order_relaxed)) {}
    count.fetch_add(1, std::memory_order_relaxed);
}
inline void sub(void * p) { if (p) live.fetch_sub(malloc_usable_size(p), std::memory_order_relaxed); }
inline bool over(size_t n) { size_t c = cap.load(std::memory_order_relaxed); if (c && n > c) { caphits++; errno = ENOMEM; return true; } return false; }
}
extern "C" {
size_t alloc_live(void) { return live.load(); }
size_t alloc_peak(void) { return peak.load(); }
void alloc_reset_peak(void) { peak.store(live.load()); }
unsigned long alloc_count(void) { return count.load(); }
void alloc_set_cap(size_t b) { cap.store(b); }
void alloc_set_poison(int e, uint8_t f, uint8_t d) { pfresh = f; pfreed = d; poison = e; }
unsigned long alloc_cap_hits(void) { return caphits.load(); }

void * malloc(size_t n) {
    if (over(n)) return nullptr;
    void * p = __libc_malloc(n);
    if (p && poison.load(std::memory_order_relaxed)) memset(p, pfresh.load(std::memory_order_relaxed), malloc_usable_size(p));
    add(p); return p;
}
void free(void * p) {
    if (!p) return;
    sub(p);
    if (poison.load(std::memory_order_relaxed)) memset(p, pfreed.load(std::memory_order_relaxed), malloc_usable_size(p));
    __libc_free(p);
}
void * calloc(size_t a, size_t b) {
    if (b && a > (size_t)-1 / b) { errno = ENOMEM; return nullptr; }
    if (over(a * b)) return nullptr;
    void * p = __libc_calloc(a, b); add(p); return p;
}
void * realloc(void * q, size_t n) {
    if (over(n)) return nullptr;
    size_t old = q ? malloc_usable_size(q) : 0;
    if (q) sub(q);
    void * p = __libc_realloc(q, n);
    if (!p) { if (q && n) live.fetch_add(old, std::memory_order_relaxed); return nullptr; }
    if (poison.load(std::memory_order_relaxed)) { size_t nu = malloc_usable_size(p); if (nu > old) memset((char *)p + old, pfresh.load(std::memory_order_relaxed), nu - old); }
    add(p); return p;
}
void * memalign(size_t al, size_t n) { if (over(n)) return nullptr; void * p = __libc_memalign(al, n); if (p && poison.load(std::memory_order_relaxed)) memset(p, pfresh.load(), malloc_usable_size(p)); add(p); return p; }
void * aligned_alloc(size_t al, size_t n) { return memalign(al, n); }
int posix_memalign(void ** out, size_t al, size_t n) { void * p = memalign(al, n); if (!p) return ENOMEM; *out = p; return 0; }
}
