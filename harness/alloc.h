// Allocation ledger (plain flavour only): malloc-family interposition with live/peak byte counters, an allocation cap
// (allocations above it fail -> operator new throws std::bad_alloc) and poison patterns for fresh and freed blocks.
#pragma once
#include <cstddef>
#include <cstdint>
extern "C" {
size_t alloc_live(void);
size_t alloc_peak(void);
void alloc_reset_peak(void);
unsigned long alloc_count(void);
void alloc_set_cap(size_t bytes);                                  // 0 = no cap
void alloc_set_poison(int enable, uint8_t fresh, uint8_t freed);
unsigned long alloc_cap_hits(void);
}
