// Schedule controller: serialising scheduler + online deadlock monitor by pthread interposition (see DESIGN 3.6).
#pragma once
#include <cstddef>
#include <cstdint>
extern "C" {
enum { SCHED_RANDOM = 0, SCHED_PCT = 1, SCHED_STARVE = 2, SCHED_FAVOUR = 3 };
// begin a controlled session on the calling thread (becomes thread 0). param: PCT depth d / starved or favoured thread id.
void sched_begin(uint64_t seed, int strategy, int param);
// end the session; returns the number of session threads that have not finished (0 on a clean shutdown)
int sched_end(void);
void sched_set_budget(uint64_t steps);                 // progress budget per session (0 = none)
// systematic exploration: when set, every scheduling decision is delegated to fn(ncand, enabled thread ids, current thread id,
// current thread still enabled?) -> id of the thread to run; random perturbations (holds, spurious wake-ups, timeouts) are off
void sched_set_chooser(int (*fn)(int ncand, const int * cand_ids, int current_id, int current_enabled));
void sched_set_spurious(int permille);                 // spurious condition-variable wake-ups
void sched_set_wake_delay(int on);                    // woken waiters may be slow to get going (default on)
void sched_set_timeouts(int permille);                 // timed waits time out at arbitrary scheduling points (virtual time)
void sched_replay(const uint8_t * seq, size_t n);      // force this schedule in the next session
const uint8_t * sched_log(size_t * n);                 // schedule of the last/current session (chosen thread ids)
uint64_t sched_steps(void);
uint64_t sched_switches(void);
uint64_t sched_signature(void);
int sched_nthreads(void);
// called on deadlock / budget overrun: kind = "deadlock" | "livelock", key = sorted wait sites, report = full text.
// default handler prints "@viol <kind>:<key> :: report" and _exit(42)
extern void (*sched_on_violation)(const char * kind, const char * key, const char * report);
// counters: how often each wait site actually blocked; written as JSON object body into buf
void sched_site_counts(char * buf, size_t n);
void sched_reset_site_counts(void);
// native-thread jitter mode (no serialisation): random yields/sleeps around lock/unlock/notify
void sched_jitter(uint64_t seed, int permille);
// number of threads of this session currently blocked in a condition wait / total alive (serial mode, for quiescence checks)
int sched_blocked_in_wait(void);
// site (symbolised) where thread id is currently blocked, "" if not blocked
const char * sched_thread_site(int id);
}
