// C13 - API call histories: ownership ledger, live-bytes / thread-count deltas, is_open/good/eof state machine.
//   hist <seed> <from> <to> <exhaustive_len> <nrandom>
// case index i: i < E (number of mode-respecting histories up to exhaustive_len, enumerated deterministically) -> that
// history; otherwise a random history of length <= 12 derived from (seed, i).
// Built for asan (double free / use after free / LSan) and for plain+alloc ledger (exact live-bytes delta).
#include <Vector/BLF.h>
#include <dirent.h>
#include <map>
#include <sstream>
#include "hcommon.h"
#include "rng.h"
#include "twin.h"
#include "vsched.h"
#include "watchdog.h"
#ifdef WITH_ALLOC
#include "alloc.h"
#endif

using namespace Vector::BLF;

enum Sym { O_MISSING, O_UNWRITABLE, O_IN, O_OUT, O_AGAIN, READ, WRITE, CLOSE, DESTROY, O_AGAIN_OTHER, NSYM };
static const char * symname[] = {"open(missing)", "open(unwritable)", "open(in)", "open(out)", "open-again", "read", "write", "close", "destroy", "open-again(other mode)"};

// mode-respecting alphabet given the abstract state: 0 = never opened, 1 = open for reading, 2 = open for writing, 3 = closed after a session
static std::vector<int> allowed(int st) {
    switch (st) {
    case 0: return {O_MISSING, O_UNWRITABLE, O_IN, O_OUT, CLOSE, DESTROY};
    case 1: return {O_AGAIN, O_AGAIN_OTHER, READ, CLOSE, DESTROY};
    case 2: return {O_AGAIN, O_AGAIN_OTHER, WRITE, CLOSE, DESTROY};
    default: return {O_MISSING, CLOSE, DESTROY};
    }
}
static int next_state(int st, int sym) {
    if (st == 0 && sym == O_IN) return 1;
    if (st == 0 && sym == O_OUT) return 2;
    if ((st == 1 || st == 2) && sym == CLOSE) return 3;
    return st;
}
static void enumerate(int st, std::vector<int> & cur, int maxlen, std::vector<std::vector<int>> & out) {
    if (!cur.empty()) out.push_back(cur);         // every prefix is a history (the File is destroyed at its end)
    if ((int)cur.size() >= maxlen) return;
    if (!cur.empty() && cur.back() == DESTROY) return;
    for (int s : allowed(st)) { cur.push_back(s); enumerate(next_state(st, s), cur, maxlen, out); cur.pop_back(); }
}

struct TrackedCan : ObjectHeader {      // CanMessage is final: same wire format (ObjectHeader + 16 body bytes) with a destructor that counts
    static std::map<uint32_t, int> freed; static long live;
    uint32_t tid; uint8_t body[16];
    explicit TrackedCan(uint32_t t, ObjectType ty = ObjectType::CAN_MESSAGE) : ObjectHeader(ty), tid(t) { live++; objectTimeStamp = t; memset(body, 0, sizeof body); body[0] = 1; body[3] = 8; memcpy(body + 4, &t, 4); }
    ~TrackedCan() override { freed[tid]++; live--; }
    void write(AbstractFile & os) override { ObjectHeader::write(os); os.write(reinterpret_cast<char *>(body), sizeof body); }
    uint32_t calculateObjectSize() const override { return ObjectHeader::calculateObjectSize() + sizeof body; }
};
std::map<uint32_t, int> TrackedCan::freed; long TrackedCan::live = 0;

static std::string dir;
static const int sizes[] = {0, 1, 9, 10, 11, 50, 12000};      // 12000 objects = 576 KB in 128 KiB containers: more than the pipeline buffers, so workers block
static const int NSIZES = 7;

struct Outcome { std::string err; std::string errkey; };

static Outcome run_history(const std::vector<int> & h, int fsz, bool controlled, uint64_t sseed, const std::string & outpath) {
    Outcome oc;
    auto fail = [&](const std::string & k, const std::string & t) { if (oc.errkey.empty()) { oc.errkey = k; oc.err = t; } };
    std::vector<ObjectHeaderBase *> got;
    TrackedCan::freed.clear();
    uint32_t nwritten = 0; bool wrote_session = false;
    int base_threads = hc::native_threads();
#ifdef WITH_ALLOC
    oc.err.reserve(256); oc.errkey.reserve(64);
    size_t base_live = alloc_live();
#endif
    if (controlled) { sched_set_budget(300000); sched_begin(sseed, SCHED_RANDOM, 0); }
    {
        File * f = new File;
        int st = 0; bool sawnull = false; int nread = 0; bool open = false;
        for (size_t k = 0; k < h.size(); k++) {
            int sym = h[k];
            std::string at = std::string(symname[sym]) + "@" + std::to_string(k);
            if (sym == DESTROY) break;
            switch (sym) {
            case O_MISSING: f->open((dir + "/nonexistent-dir/x.blf").c_str(), std::ios_base::in); break;
            case O_UNWRITABLE: f->open((dir + "/nonexistent-dir/y.blf").c_str(), std::ios_base::out); break;
            case O_IN: if (k & 1) f->open(dir + "/in_" + std::to_string(fsz) + ".blf", std::ios_base::in); else f->open((dir + "/in_" + std::to_string(fsz) + ".blf").c_str(), std::ios_base::in); open = true; break;   // both public overloads
            case O_OUT: if (k & 1) f->open(outpath, std::ios_base::out); else f->open(outpath.c_str(), std::ios_base::out); open = true; wrote_session = true; break;
            case O_AGAIN_OTHER: if (st == 2) f->open((dir + "/in_1.blf").c_str(), std::ios_base::in); else f->open((outpath + ".other").c_str(), std::ios_base::out); break;
            case O_AGAIN: if (st == 1) f->open((dir + "/in_1.blf").c_str(), std::ios_base::in); else f->open((outpath + ".other").c_str(), std::ios_base::out); break;
            case READ: {
                ObjectHeaderBase * o = f->read();
                if (o) {
                    got.push_back(o);
                    CanMessage * m = dynamic_cast<CanMessage *>(o);
                    if (!m || m->id != 1000u + (uint32_t)nread) fail("read-order", "object " + std::to_string(nread) + " at " + at);
                    nread++;
                    if (sawnull) fail("object-after-end", at);
                    if (!f->good() || f->eof()) fail("flags-after-object", "good=" + std::to_string(f->good()) + " eof=" + std::to_string(f->eof()) + " at " + at);
                } else {
                    sawnull = true;
                    if (nread != fsz) fail("early-null", std::to_string(nread) + " of " + std::to_string(fsz) + " at " + at);
                    if (f->good() || !f->eof()) fail("flags-after-null", "good=" + std::to_string(f->good()) + " eof=" + std::to_string(f->eof()) + " at " + at);
                }
                break;
            }
            case WRITE: ++nwritten; f->write(new TrackedCan(nwritten, nwritten % 3 == 2 ? ObjectType::Unknown115 : ObjectType::CAN_MESSAGE));   // every third one is a restore point container (same 16 body bytes: reserved[14] + dataLength 0), as a tool copying a Vector log writes them
                if (!f->good() || f->eof()) fail("flags-after-write", at); break;
            case CLOSE: f->close(); if (st == 1 || st == 2) open = false; break;
            }
            st = next_state(st, sym);
            if (f->is_open() != open) fail(std::string("is_open-after-") + symname[sym], "is_open=" + std::to_string(f->is_open()) + " model=" + std::to_string(open) + " at " + at);
            if ((sym == O_IN || sym == O_OUT) && (!f->good() || f->eof())) fail("flags-after-open", at);
        }
        delete f;
    }
    int left = 0;
    if (controlled) left = sched_end();
    if (wrote_session) {      // everything handed to write() before close()/destruction must be in the file
        twin::Bytes fb = twin::load(outpath), stream; std::string pe = twin::parse(fb, stream);
        size_t n = 0, p = 0; while (p + 16 <= stream.size() && !memcmp(&stream[p], "LOBJ", 4)) { uint32_t osz = twin::get32(&stream[p + 8]); if (osz < 16) break; n++; p += osz; }
        if (!pe.empty()) fail("written-file-malformed", pe); else if (n != nwritten) fail("written-objects-missing-from-file", std::to_string(n) + " of " + std::to_string(nwritten) + " objects in the file");
    }
    if (left) fail("thread-left-behind", "controller sees " + std::to_string(left) + " unfinished threads");
    for (auto * o : got) delete o;      // objects returned by read() belong to the caller (a library-side delete shows as ASan double free)
    for (uint32_t t = 1; t <= nwritten; t++) {
        int n = TrackedCan::freed.count(t) ? TrackedCan::freed[t] : 0;
        if (n == 0) fail("written-object-not-freed", "object " + std::to_string(t) + " of " + std::to_string(nwritten));
        else if (n > 1) fail("written-object-freed-twice", "object " + std::to_string(t));
    }
    if (!hc::threads_back_to(base_threads)) fail("thread-left-behind", "native thread count " + std::to_string(hc::native_threads()) + " baseline " + std::to_string(base_threads));
#ifdef WITH_ALLOC
    { std::vector<ObjectHeaderBase *>().swap(got); TrackedCan::freed.clear(); }      // the monitor's own allocations are not the library's
    size_t after = alloc_live();
    if (after != base_live && oc.errkey.empty()) { oc.errkey = "live-bytes-delta"; oc.err = std::to_string((long)after - (long)base_live) + " bytes"; }
#endif
    return oc;
}

int main(int argc, char ** argv) {
    hc::out_init();
    if (argc < 7) { fprintf(stderr, "usage: h_hist hist seed from to exhaustive_len nrandom\n"); return 2; }
    uint64_t seed = strtoull(argv[2], nullptr, 0); long from = atol(argv[3]), to = atol(argv[4]); int elen = atoi(argv[5]);
    const char * tmp = getenv("VERIF_TMP"); dir = tmp ? tmp : "/dev/shm";
    std::string outpath = dir + "/hist_out." + std::to_string(getpid()) + ".blf";
    wd::start();
    for (int s : sizes) {   // valid input files around the queue capacity, written by the independent writer
        std::string p = dir + "/in_" + std::to_string(s) + ".blf";
        twin::Bytes st; for (int i = 0; i < s; i++) { twin::Bytes o = twin::can_message(1000 + i); st.insert(st.end(), o.begin(), o.end()); }
        std::string t = p + "." + std::to_string(getpid()); twin::save(t, twin::wrap(st, s > 1000 ? 0x20000 : 100, 0)); rename(t.c_str(), p.c_str());
    }
    std::vector<std::vector<int>> ex; { std::vector<int> cur; enumerate(0, cur, elen, ex); }
    if (std::string(argv[1]) == "count") { printf("%zu\n", ex.size()); return 0; }
    sched_on_violation = [](const char * kind, const char * key, const char * report) {
        std::string r = report; for (auto & ch : r) if (ch == '\n') ch = '|';
        printf("@viol %s:%s :: %s\n", kind, key, r.c_str()); fflush(stdout); _exit(42);
    };
    // warm-up so that first-use allocations (iostreams, controller log) are not charged to a history
    { std::vector<int> w1 = {O_MISSING, O_UNWRITABLE, O_IN, READ, READ, CLOSE}, w2 = {O_OUT, WRITE, O_AGAIN, CLOSE};
      for (int k = 0; k < 2; k++) { wd::arm(60, "warmup"); run_history(w1, 1, k, 1, outpath); run_history(w2, 1, k, 1, outpath); } }
    long n = 0, controlled_n = 0, exhaustive_n = 0, reads = 0, writes = 0; std::map<int, long> lens; std::string sample; std::vector<uint64_t> rhashes;
    for (long idx = from; idx < to; idx++) {
        hc::begin_case(std::to_string(idx));
        wd::arm(25, "c13-history");
        Rng r(Rng::mix(seed ^ 0xC13, (uint64_t)idx));
        std::vector<int> h; int fsz;
        if (idx < (long)ex.size()) { h = ex[idx]; fsz = sizes[idx % NSIZES]; exhaustive_n++; }
        else {
            int st = 0, len = 1 + r.below(12);
            for (int k = 0; k < len; k++) {
                std::vector<int> a = allowed(st);
                int s;
                if (st == 1 && r.chance(2, 3)) s = READ; else if (st == 2 && r.chance(2, 3)) s = WRITE; else s = a[r.below((uint32_t)a.size())];
                h.push_back(s); st = next_state(st, s);
                if (s == DESTROY) break;
            }
            fsz = sizes[r.below(NSIZES)];
        }
        if (idx >= (long)ex.size()) { uint64_t hh = 1469598103934665603ULL ^ (uint64_t)fsz; for (int sy : h) hh = hh * 1099511628211ULL ^ (uint64_t)(sy + 1); rhashes.push_back(hh & 0xffffffffffffULL); }
        bool controlled = r.chance(1, 20);
        std::ostringstream hs; hs << "file=" << fsz << (controlled ? " controlled" : "") << ":"; for (int s : h) { hs << " " << symname[s]; if (s == READ) reads++; if (s == WRITE) writes++; }
        wd::note(hs.str().c_str());
        static std::string ctx; ctx = hs.str();
        Outcome oc = run_history(h, fsz, controlled, Rng::mix(seed, (uint64_t)idx), outpath);
        if (!oc.errkey.empty()) hc::viol(oc.errkey, oc.err + " history " + std::to_string(idx) + " " + hs.str());
        n++; if (controlled) controlled_n++; lens[(int)h.size()]++;
        if (sample.empty() && h.size() >= 5) sample = hs.str();
        wd::disarm();
    }
    unlink(outpath.c_str()); unlink((outpath + ".other").c_str());
    std::ostringstream o;
    o << "{\"histories\":" << n << ",\"exhaustive_histories\":" << exhaustive_n << ",\"controlled\":" << controlled_n << ",\"reads\":" << reads << ",\"writes\":" << writes << ",\"lengths\":{";
    bool first = true; for (auto & kv : lens) { o << (first ? "" : ",") << "\"" << kv.first << "\":" << kv.second; first = false; }
    o << "},\"random_history_hashes\":[";
    for (size_t i = 0; i < rhashes.size(); i++) o << (i ? "," : "") << rhashes[i];
    o << "],\"samples\":[" << hc::jstr(sample) << "]}";
    hc::stat(o.str());
    return 0;
}
