// Reference-model monitors (single-threaded, non-blocking histories):
//   c15 <seed> <from> <to>   UncompressedFile vs flat byte-queue model (DESIGN appendix A.1)
//   c16 <seed> <from> <to>   ObjectQueue vs FIFO model (appendix A.2)
// case = history index; the history is a pure function of (seed, index), so "<mode> seed i i+1" replays it.
#include <Vector/BLF.h>
#include <deque>
#include <limits>
#include <set>
#include <sstream>
#include "hcommon.h"
#include "rng.h"
#include "watchdog.h"

using namespace Vector::BLF;

static const long long INF = std::numeric_limits<std::streamsize>::max();

struct ByteModel {
    std::vector<uint8_t> data;           // the bytes really written, without the gaps
    struct Gap { long long at, len; };   // stretches that were appended as containers of declared size only: never read, only skipped
    std::vector<Gap> gaps;
    long long g = 0, p = 0, gc = 0, fs = INF, L = 0;
    bool failed = false, eof = false;
    bool touches_gap(long long a, long long b) const { for (auto & x : gaps) if (a < x.at + x.len && x.at < b) return true; return false; }
    size_t idx(long long pos) const { long long sub = 0; for (auto & x : gaps) if (x.at < pos) sub += x.len; return (size_t)(pos - sub); }
    const Gap * gap_at_or_after(long long pos) const { for (auto & x : gaps) if (x.at + x.len > pos) return &x; return nullptr; }
};

static uint8_t byteval(uint64_t seed, uint64_t idx) { return (uint8_t)(Rng::mix(seed ^ 0xB17E, idx) >> 17); }

static int run_c15(uint64_t seed, long from, long to) {
    long ops = 0, reads = 0, shortreads = 0, drops = 0, wholes = 0, seeks = 0, straddle = 0, hist = 0, gapsmade = 0, gapjumps = 0, beyond4g = 0, reads_beyond4g = 0, beyondput = 0;
    std::set<uint64_t> sigs;
    std::string sample;
    for (long it = from; it < to; it++) {
        hc::begin_case(std::to_string(it));
        wd::arm(30, "c15-history");
        Rng r(Rng::mix(seed, (uint64_t)it));
        UncompressedFile u; ByteModel m;
        uint32_t c = 1 + r.below(64);
        u.setDefaultLogContainerSize(c);
        std::ostringstream h; h << "c" << c << " ";
        bool mid = false;        // tellp may be inside a partially filled container
        bool noreads = false;    // after the first failed read no further reads are generated
        int len = 1 + r.below(60);
        uint64_t widx = 0; uint64_t sig = 1469598103934665603ULL;
        bool bad = false;
        for (int k = 0; k < len && !bad; k++) {
            int op = r.below(10);
            if (m.g > m.p && r.chance(1, 2)) op = r.chance(1, 2) ? 7 : 0;      // the get position is ahead of the put position: release what is held, then write across it
            sig = sig * 1099511628211ULL ^ (uint64_t)op;
            if (op <= 1) {                      // write n bytes
                int n = r.below(3 * c + 2);
                std::vector<char> s(n ? n : 1);
                for (int i = 0; i < n; i++) { s[i] = (char)byteval(seed + it, widx++); m.data.push_back((uint8_t)s[i]); }
                u.write(s.data(), n);
                m.p += n; if (m.p >= m.fs) m.fs = m.p;
                if (n > 0) mid = true;
                if (n > (int)c) straddle++;
                h << "w" << n << " ";
            } else if (op == 2) {               // append a whole container (only at a container boundary)
                if (mid) { u.nextLogContainer(); h << "nlc "; mid = false; }
                int n = 1 + r.below(2 * c);
                std::shared_ptr<LogContainer> lc(new LogContainer);
                lc->uncompressedFile.resize(n);
                for (int i = 0; i < n; i++) { lc->uncompressedFile[i] = byteval(seed + it, widx++); m.data.push_back(lc->uncompressedFile[i]); }
                lc->uncompressedFileSize = n;
                u.write(lc);
                m.p += n;
                wholes++;
                h << "W" << n << " ";
            } else if (op <= 5) {               // read n (only if it cannot block)
                if (noreads) continue;
                long long n = r.below(3 * c + 2);
                if (r.chance(1, 8) && m.fs != INF) n = m.fs - m.g + r.below(3);      // aim at the declared end
                if (n < 0) n = 0;
                // a read past the declared end is only defined when everything up to that end has been written (end <= put position);
                // while the declared end lies ahead of the put position, only reads that are already satisfiable are generated
                bool wouldblock = !((n + m.g <= m.p) || (n + m.g > m.fs && m.fs <= m.p));
                if (wouldblock) continue;
                if (m.touches_gap(m.g, std::min(m.g + n, m.fs))) continue;       // the contents of a skipped stretch are not defined
                std::vector<char> s(n + 1, 0x55);
                u.read(s.data(), n);
                reads++;
                h << "r" << n << " ";
                long long exp;
                if (n + m.g > m.fs) { exp = std::max(0LL, m.fs - m.g); m.failed = m.eof = true; noreads = true; shortreads++; }
                else { exp = n; m.failed = m.eof = false; }
                if (m.g >= (1LL << 32)) reads_beyond4g++;
                if (exp > 0 && (m.idx(m.g) + (size_t)exp > m.data.size() || memcmp(s.data(), m.data.data() + m.idx(m.g), exp) != 0)) {
                    hc::viol("read-bytes-differ", "history " + std::to_string(it) + ": " + h.str()); bad = true; break;
                }
                if (s[exp] != 0x55) { hc::viol("read-writes-past-count", "history " + std::to_string(it) + ": " + h.str()); bad = true; break; }
                m.g += exp; m.gc = exp;
                if ((long long)u.gcount() != m.gc) {
                    hc::viol("gcount", "gcount " + std::to_string((long long)u.gcount()) + " model " + std::to_string(m.gc) + " history " + std::to_string(it) + ": " + h.str()); bad = true; break;
                }
            } else if (op == 6) {               // relative seek
                long long k2 = (long long)r.below(9) - 4;
                if (r.chance(1, 10)) k2 = (long long)r.below(2 * c + 1);
                if (r.chance(1, 8) && m.p >= m.g) { k2 = (m.p - m.g) + (long long)r.below(2 * c + 1); beyondput++; }      // to or past the put position: the way the reader skips an object that has not arrived yet
                const ByteModel::Gap * ga = m.gap_at_or_after(m.g);
                if (ga && ga->at - m.g <= 3 * (long long)c && r.chance(2, 3)) { k2 = ga->at + ga->len - m.g; gapjumps++; }     // the way the reader skips an object it does not decode
                if (k2 < 0 && m.g + k2 < m.L) continue;
                u.seekg(k2);
                m.g = std::min(m.g + k2, m.fs);
                seeks++;
                h << "s" << k2 << " ";
            } else if (op == 7) {
                u.dropOldData(); if (m.g > m.L) m.L = m.g; drops++; h << "d ";
            } else if (op == 8) {
                if (r.chance(2, 3)) continue;
                long long v = (r.chance(1, 2) || m.g >= m.p) ? m.p : m.g + (long long)r.below((uint32_t)(m.p - m.g + 1));
                if (r.chance(1, 4)) v = m.p + 1 + (long long)r.below(2 * c + 1);      // declared end ahead of the put position: a later write may pass it
                if (v < m.g) continue;          // declared end below the get position is outside the model
                u.setFileSize(v); m.fs = v;
                h << "fs" << v << " ";
            } else if (r.chance(1, 2) && m.gaps.size() < 3 && m.fs == INF) {
                // a container that declares G bytes and is only ever skipped: positions beyond 4 GiB without 4 GiB of memory. G is chosen
                // so that the position behind it is congruent modulo 2^32 to a position near the data still held.
                if (mid) { u.nextLogContainer(); h << "nlc "; mid = false; }
                long long d = r.chance(1, 2) ? (long long)r.below(3 * c + 2) : std::min(m.p - m.L, (long long)r.below(4 * c + 2));
                long long G = r.chance(3, 4) ? (1LL << 32) - d : 0xFFFFFF00LL - (long long)r.below(512);
                if (G <= 0 || G > 0xFFFFFFFFLL) G = 0xFFFFFFFFLL;
                std::shared_ptr<LogContainer> lc(new LogContainer);
                lc->uncompressedFileSize = (uint32_t)G;
                u.write(lc);
                ByteModel::Gap ng; ng.at = m.p; ng.len = G; m.gaps.push_back(ng);
                m.p += G; gapsmade++;
                h << "G" << G << " ";
            } else {
                c = 1 + r.below(64); u.setDefaultLogContainerSize(c); h << "c" << c << " ";
            }
            ops++;
            if (m.p >= (1LL << 32)) beyond4g++;
            long long etg = m.failed ? -1 : m.g, etp = m.failed ? -1 : m.p;
            long long tg = (long long)u.tellg(), tp = (long long)u.tellp(), fs = (long long)u.fileSize();
            bool good = u.good(), eof = u.eof();
            const char * what = nullptr;
            if (tg != etg) what = "tellg"; else if (tp != etp) what = "tellp"; else if (good != !m.failed) what = "good";
            else if (eof != m.eof) what = "eof"; else if (fs != m.fs) what = "fileSize";
            else if (u.defaultLogContainerSize() != c) what = "defaultLogContainerSize";
            if (what) {
                std::ostringstream d; d << what << ": tellg " << tg << "/" << etg << " tellp " << tp << "/" << etp << " good " << good << "/" << !m.failed
                                        << " eof " << eof << "/" << m.eof << " fileSize " << fs << "/" << m.fs << " history " << it << ": " << h.str();
                hc::viol(std::string("observer-") + what, d.str()); bad = true;
            }
        }
        // final drain: everything written and not yet read is still there, in order (dropping never discards unread bytes)
        if (!bad && !noreads && m.g <= m.p && m.fs >= m.p) {
            while (m.g < m.p) {
                const ByteModel::Gap * ga = m.gap_at_or_after(m.g);
                if (ga && ga->at <= m.g) { long long k2 = ga->at + ga->len - m.g; u.seekg(k2); m.g += k2; h << "s" << k2 << " "; continue; }
                long long n = (ga ? ga->at : m.p) - m.g;
                std::vector<char> s(n + 1, 0x55);
                u.read(s.data(), n);
                h << "r" << n << " ";
                if ((long long)u.gcount() != n || (n > 0 && memcmp(s.data(), m.data.data() + m.idx(m.g), n) != 0)) {
                    hc::viol("final-drain-differs", "history " + std::to_string(it) + ": " + h.str()); break;
                }
                if (m.g >= (1LL << 32)) reads_beyond4g++;
                m.g += n;
                reads++;
            }
        }
        hist++;
        sigs.insert(sig);
        if (sample.empty() && len > 20) sample = h.str();
    }
    std::ostringstream o;
    o << "{\"histories\":" << hist << ",\"ops\":" << ops << ",\"reads\":" << reads << ",\"short_reads\":" << shortreads << ",\"drops\":" << drops << ",\"whole_containers\":" << wholes
      << ",\"seeks\":" << seeks << ",\"seeks_to_or_past_the_put_position\":" << beyondput << ",\"skipped_stretches_of_about_4GiB\":" << gapsmade << ",\"seeks_over_them\":" << gapjumps << ",\"ops_with_put_position_beyond_4GiB\":" << beyond4g << ",\"reads_at_positions_beyond_4GiB\":" << reads_beyond4g << ",\"writes_straddling_containers\":" << straddle << ",\"distinct\":" << sigs.size() << ",\"samples\":[" << hc::jstr(sample) << "]}";
    hc::stat(o.str());
    return 0;
}

// ------------------------------------------------------------------------------------------------------------- C16 sequential
struct Tok : ObjectHeaderBase {
    static long live;
    uint32_t id;
    explicit Tok(uint32_t i) : ObjectHeaderBase(1, ObjectType::UNKNOWN), id(i) { live++; }
    ~Tok() override { live--; }
};
long Tok::live = 0;

static int run_c16(uint64_t seed, long from, long to) {
    long ops = 0, hist = 0, nulls = 0, delivered = 0, left = 0, aborted_hist = 0;
    std::set<uint64_t> sigs; std::string sample;
    const uint32_t UMAX = std::numeric_limits<uint32_t>::max();
    for (long it = from; it < to; it++) {
        hc::begin_case(std::to_string(it));
        wd::arm(30, "c16-history");
        Rng r(Rng::mix(seed ^ 0xC16, (uint64_t)it));
        std::ostringstream h; bool bad = false; uint64_t sig = 1469598103934665603ULL;
        long base_live = Tok::live;
        {
            ObjectQueue<ObjectHeaderBase> q;
            std::deque<uint32_t> mq; uint32_t tg = 0, tp = 0, cap = UMAX, end = UMAX; bool ab = false, failed = false, eof = false;
            uint32_t next = 1;
            if (r.chance(3, 4)) { cap = 1 + r.below(4); q.setBufferSize(cap); h << "cap" << cap << " "; }
            int len = 1 + r.below(40);
            for (int k = 0; k < len && !bad; k++) {
                int op = r.below(10);
                sig = sig * 1099511628211ULL ^ (uint64_t)op;
                if (op <= 3) {          // write
                    if (!(ab || mq.size() < cap)) continue;
                    q.write(new Tok(next)); mq.push_back(next); next++; tp++; if (tp > end) end = tp;
                    h << "w ";
                } else if (op <= 7) {   // read
                    if (!(ab || !mq.empty() || tg >= end)) continue;
                    ObjectHeaderBase * o = q.read();
                    h << "r ";
                    if (mq.empty()) {
                        failed = eof = true; nulls++;
                        if (o) { hc::viol("seq:object-from-empty-queue", "history " + std::to_string(it) + ": " + h.str()); bad = true; delete o; }
                    } else {
                        if (!o) { hc::viol("seq:null-while-objects-remain", "history " + std::to_string(it) + ": " + h.str()); bad = true; }
                        else {
                            Tok * t = dynamic_cast<Tok *>(o);
                            if (!t || t->id != mq.front()) { hc::viol("seq:fifo-order", "got " + std::to_string(t ? t->id : 0) + " expected " + std::to_string(mq.front()) + " history " + std::to_string(it) + ": " + h.str()); bad = true; }
                            delete o; delivered++;
                        }
                        mq.pop_front(); tg++; failed = eof = false;
                    }
                } else if (op == 8) {
                    if (r.chance(1, 2)) continue;
                    uint32_t v = r.chance(2, 3) ? tp : r.below(tp + 3);
                    q.setFileSize(v); end = v; h << "fs" << v << " ";
                } else {
                    if (r.chance(1, 3)) { q.abort(); ab = true; h << "abort "; }
                    else { cap = 1 + r.below(4); q.setBufferSize(cap); h << "cap" << cap << " "; }
                }
                ops++;
                const char * what = nullptr;
                if (q.tellg() != tg) what = "tellg"; else if (q.tellp() != tp) what = "tellp"; else if (q.good() != !failed) what = "good"; else if (q.eof() != eof) what = "eof";
                if (what) { hc::viol(std::string("seq:observer-") + what, "history " + std::to_string(it) + ": " + h.str()); bad = true; }
            }
            left += (long)mq.size();
            if (ab) aborted_hist++;
            if (!bad && Tok::live != base_live + (long)mq.size()) { hc::viol("seq:live-objects-before-destruction", "live " + std::to_string(Tok::live - base_live) + " queued " + std::to_string(mq.size()) + " history " + std::to_string(it) + ": " + h.str()); bad = true; }
        }
        if (!bad && Tok::live != base_live) hc::viol("seq:destructor-does-not-free-queued-objects", "live " + std::to_string(Tok::live - base_live) + " history " + std::to_string(it) + ": " + h.str());
        hist++; sigs.insert(sig);
        if (sample.empty() && h.str().size() > 40) sample = h.str();
    }
    std::ostringstream o;
    o << "{\"histories\":" << hist << ",\"ops\":" << ops << ",\"delivered\":" << delivered << ",\"null_reads\":" << nulls << ",\"objects_left_for_destructor\":" << left
      << ",\"histories_with_abort\":" << aborted_hist << ",\"distinct\":" << sigs.size() << ",\"samples\":[" << hc::jstr(sample) << "]}";
    hc::stat(o.str());
    return 0;
}

int main(int argc, char ** argv) {
    hc::out_init();
    if (argc < 5) return 2;
    wd::start();
    std::string mode = argv[1]; uint64_t seed = strtoull(argv[2], nullptr, 0); long from = atol(argv[3]), to = atol(argv[4]);
    if (mode == "c15") return run_c15(seed, from, to);
    if (mode == "c16") return run_c16(seed, from, to);
    return 2;
}
