// libFuzzer target (C10 thorough): whole File sessions on structure-aware mutants (inflate, mutate the object stream, re-wrap).
#include <Vector/BLF.h>
#include <unistd.h>
#include "twin.h"
#define NEWCAP_IMPL
#include "newcap.h"
using namespace Vector::BLF;
extern "C" size_t LLVMFuzzerMutate(uint8_t * data, size_t size, size_t maxsize);
static std::string g_path;
struct CapScope { CapScope() { g_new_cap = 256u << 20; } ~CapScope() { g_new_cap = 0; } };
extern "C" int LLVMFuzzerInitialize(int *, char ***) { const char * t = getenv("VERIF_TMP"); g_path = std::string(t ? t : "/dev/shm") + "/fz." + std::to_string(getpid()) + ".blf"; return 0; }
extern "C" size_t LLVMFuzzerCustomMutator(uint8_t * data, size_t size, size_t maxsize, unsigned int seed) {
    twin::Bytes f(data, data + size), stream;
    bool parsed = false;
    try { parsed = twin::parse(f, stream).empty(); } catch (std::exception &) { parsed = false; }
    if (seed % 4 != 0 && parsed && stream.size() > 0 && stream.size() * 2 + 512 < maxsize) {
        size_t cap = std::min(maxsize / 2, stream.size() + 256);
        stream.resize(cap);
        size_t n = LLVMFuzzerMutate(stream.data(), std::min(stream.size(), cap - 256 > 0 ? cap - 256 : cap), cap);
        stream.resize(n);
        size_t cs = (seed >> 3) % 3 == 0 ? 16 + (seed >> 8) % 200 : stream.size() + 1;
        twin::Bytes w(f.begin(), f.begin() + 144);
        for (size_t i = 0; i < stream.size(); i += cs) { twin::Bytes c = twin::container(stream.data() + i, std::min(cs, stream.size() - i), (seed >> 2) % 2 ? 6 : 0); w.insert(w.end(), c.begin(), c.end()); }
        if ((seed >> 5) % 8 == 0 && w.size() > 144 + 32) { size_t off = 144 + 8 + 4 * ((seed >> 9) % 6); uint32_t v = (seed >> 12) % 2 ? 0xffffffffu : (seed >> 13) % 64; memcpy(&w[off], &v, 4); }
        if (w.size() <= maxsize) { memcpy(data, w.data(), w.size()); return w.size(); }
    }
    return LLVMFuzzerMutate(data, size, maxsize);
}
extern "C" int LLVMFuzzerTestOneInput(const uint8_t * data, size_t size) {
    CapScope cap;
    { twin::Bytes b(data, data + size); twin::save(g_path, b); }
    long limit = 64 * (long)size + 4096;
    try {
        File f; bool open_ok = false;
        try { f.open(g_path.c_str(), std::ios_base::in); open_ok = f.is_open(); } catch (Vector::BLF::Exception &) {}
        if (open_ok) { long k = 0; while (ObjectHeaderBase * o = f.read()) { delete o; if (++k > limit) { fprintf(stderr, "VERIF-ORACLE: unbounded object stream\n"); abort(); } } f.close(); }
    } catch (std::exception & e) { fprintf(stderr, "VERIF-ORACLE: exception escapes: %s\n", e.what()); abort(); }
    return 0;
}
