// Pipeline sessions of the real File class under the schedule controller (serial mode) - monitors for C06, C07, C11(B):
//   pipe <seed> <from> <to> <schedules_per_config> [tier]
// case index = config * schedules_per_config + schedule. Every (seed, case) is a pure function -> replayable.
// Oracles: online deadlock monitor + step budget (controller), all threads finished at close (controller's table),
// delivered objects == the file's objects in order/once/unmodified, null only after the last, produced file bytes
// identical to the uncontrolled reference run and well-formed, prompt scribble+delete of every delivered object (ASan).
#include <Vector/BLF.h>
#include <dirent.h>
#include <map>
#include <set>
#include <sstream>
#include <thread>
#include "hcommon.h"
#include "memfile.h"
#include "rng.h"
#include "vsched.h"
#include "dfs.h"
#include "twin.h"
#include "watchdog.h"

using namespace Vector::BLF;

struct Cfg {
    int kind;                  // 0 read all, 1 read k then close, 2 read k then destroy, 3 write all + close, 4 write all + destroy, 5 open/close no traffic (read), 6 same (write)
    std::vector<long> sizes;   // per object: -1 = CanMessage, -2 = LinMessage2 in its version-1/2 layout (shorter than the class's largest layout), >=0 = AppText with that text length
    uint32_t C; long B; uint32_t Q; int level; bool trailer; int k; bool shipped;
    bool noisy = false;        // write session whose text payloads are high-entropy bytes (deflate cannot shrink them: output larger than input)
    bool devfull = false;      // write session whose output device accepts nothing (/dev/full): every write to the medium fails, the calls must still return
    std::string str() const {
        std::ostringstream s; s << "kind=" << kind << " C=" << C << " B=" << B << " Q=" << Q << " level=" << level << " trailer=" << trailer << " k=" << k << " sizes=[";
        for (size_t i = 0; i < sizes.size(); i++) s << (i ? "," : "") << sizes[i];
        s << "]" << (devfull ? " output=/dev/full" : "") << (noisy ? " noisy" : ""); return s.str();
    }
    std::string sizeclass() const {   // coarse class for violation keys
        long mx = -1; for (long x : sizes) mx = std::max(mx, x <= -1000 ? -x - 1000 - 48 : x);   // -1/-2 are fixed-size objects, <= -1000 unknown objects of that declared size
        long eff = (mx < 0 ? 48 : 48 + mx);
        long b = B > 0 ? B : 0x20000;
        std::string s = eff > b + (long)C ? "obj>buffer+container" : eff > b ? "obj>buffer" : eff > (long)C ? "obj>container" : "obj<=container";
        s += (long)C > b ? ",container>buffer" : (long)C == b ? ",container=buffer" : ",container<buffer";
        return s;
    }
};

static Cfg make_cfg(uint64_t seed, long ci) {
    Rng r(Rng::mix(seed ^ 0x51BE, (uint64_t)ci));
    Cfg c;
    static const int kinds[] = {0, 0, 0, 1, 1, 2, 3, 3, 3, 4, 5, 6};
    c.kind = kinds[ci % 12];
    c.shipped = (ci % 16 == 15);
    if (c.shipped) { c.B = 0; c.Q = 0; static const uint32_t cs[] = {0x20000, 4096, 0x8000, 0x40000}; c.C = cs[r.below(4)]; }
    else {
        static const long bs[] = {64, 100, 128, 256, 512}; static const uint32_t cs[] = {16, 32, 64, 100, 128, 256, 1024}; static const uint32_t qs[] = {1, 2, 3, 10};
        c.B = bs[r.below(5)]; c.C = cs[r.below(7)]; c.Q = qs[r.below(4)];
        if (r.chance(1, 4)) c.C = (uint32_t)c.B;   // container == buffer
    }
    c.level = r.chance(1, 2) ? 0 : 6;
    if (r.chance(1, 8)) c.level = 10;      // File.h documents the Vector levels 0, 6 and 10 ("maximum compression")
    c.trailer = r.chance(1, 2);
    int n = (c.kind == 5 || c.kind == 6) ? r.below(3) : r.chance(1, 10) ? 0 : 1 + r.below(c.shipped ? 3 : 6);   // incl. the empty file / empty session
    long b = c.B > 0 ? c.B : 0x20000;
    for (int i = 0; i < n; i++) {
        long s;
        switch (r.below(9)) {
        case 0: s = -1; break;
        case 1: s = r.chance(1, 2) ? -1 : -2; break;
        case 2: s = r.below(40); break;
        case 3: s = (long)c.C - 48 + (long)r.below(5) - 2; break;              // object ~ container
        case 4: s = b - 48 + (long)r.below(5) - 2; break;                      // object ~ buffer
        case 5: s = b + (long)c.C - 48 + (long)r.below(9) - 4; break;          // object ~ buffer + container
        case 6: s = 2 * (b + (long)c.C) + r.below(64); break;                  // oversized
        case 7: s = 4 * (b + (long)c.C); break;
        default: s = r.below((uint32_t)(b + c.C));
        }
        if (s < -1) s = 0;
        if (c.shipped && s > 700000) s = 700000;
        c.sizes.push_back(s);
    }
    bool reading = c.kind == 0 || c.kind == 1 || c.kind == 2 || c.kind == 5;
    if (reading && r.chance(1, 4))     // unknown-type objects (skipped by size; body may contain a complete fake object): value -(1000 + declared size)
        for (size_t i = 0; i < c.sizes.size(); i++) if (r.chance(1, 3)) { long sz = 16 + (long)r.below((uint32_t)std::min<long>(b + c.C, 3000)); c.sizes[i] = -(1000 + sz); }
    if (r.chance(1, 4))                // restore-point containers (type 115): delivered like any object, but not counted in the file header's objectCount
        for (size_t i = 0; i < c.sizes.size(); i++) if (c.sizes[i] > -1000 && r.chance(1, 3)) c.sizes[i] = -3;
    int nknown = 0; for (long x : c.sizes) if (x > -1000) nknown++;
    c.k = (c.kind == 1 || c.kind == 2) ? (int)r.below(nknown + 1) : nknown;
    c.devfull = !reading && c.kind != 6 && (ci / 12) % 4 == 1;
    c.noisy = !reading && r.chance(1, 2);
    return c;
}

static RestorePointContainer * make_rp(uint32_t uid) {
    RestorePointContainer * m = new RestorePointContainer; m->objectTimeStamp = uid; m->objectFlags = 1; m->data.resize(uid % 7);
    for (size_t k = 0; k < m->data.size(); k++) m->data[k] = (uint8_t)(uid * 5 + k); m->reservedRestorePointContainer[3] = (uint8_t)uid; return m;
}
static LinMessage2 * make_lin(uint32_t uid) {
    LinMessage2 * m = new LinMessage2; m->apiMajor = 1 + uid % 2; m->objectTimeStamp = uid; m->objectFlags = 1; m->channel = 7; m->id = (uint8_t)uid; m->dlc = 8; m->crc = (uint16_t)(uid * 3);
    for (size_t k = 0; k < m->data.size(); k++) m->data[k] = (uint8_t)(uid + k); m->respBaudrate = uid; return m;
}
// small configurations for the systematic (depth-first, preemption-bounded) exploration
static Cfg make_dfs_cfg(long ci) {
    Cfg c; static const int kinds[] = {0, 1, 3, 2};
    c.kind = kinds[ci % 4]; c.shipped = false; c.level = (ci / 4) % 2 ? 6 : 0; c.trailer = (ci / 8) % 2;
    static const uint32_t cs[] = {16, 64}; c.C = cs[(ci / 16) % 2]; c.B = 64; c.Q = 1 + (uint32_t)((ci / 32) % 2);
    int shape = (int)((ci / 64) % 3);      // object mix: one CanMessage | CanMessage + small AppText straddling containers | AppText larger than buffer + container
    if (shape == 0) c.sizes = {-1}; else if (shape == 1) c.sizes = {-1, 21}; else c.sizes = {150};
    c.k = (c.kind == 1 || c.kind == 2) ? (int)(c.sizes.size() > 1 ? 1 : 0) : (int)c.sizes.size();
    return c;
}

static twin::Bytes make_stream(const Cfg & c) {
    twin::Bytes s;
    for (size_t i = 0; i < c.sizes.size(); i++) {
        twin::Bytes o;
        if (c.sizes[i] <= -1000) {
            uint32_t sz = (uint32_t)(-c.sizes[i] - 1000); o = twin::unknown_object(200 + (uint32_t)i % 50, sz, 0xEE);
            if (sz >= 16 + 8 + 48) { twin::Bytes fake = twin::can_message(999999); memcpy(&o[16 + (i % 3) * 4], fake.data(), fake.size()); }   // a reader that resumes inside the body would deliver this
        }
        else if (c.sizes[i] == -3) { RestorePointContainer * m = make_rp(1000 + (uint32_t)i); MemFile mf; m->write(mf); delete m; o = mf.buf; }
        else if (c.sizes[i] == -2) { LinMessage2 * m = make_lin(1000 + (uint32_t)i); MemFile mf; m->write(mf); delete m; o = mf.buf; }   // encoded by the codec (C01-C03 cover it), wrapped independently
        else o = c.sizes[i] < 0 ? twin::can_message(1000 + i) : twin::app_text(1000 + i, (size_t)c.sizes[i]);
        s.insert(s.end(), o.begin(), o.end());
    }
    return s;
}

static ObjectHeaderBase * make_object(const Cfg & c, size_t i) {
    uint32_t uid = 1000 + (uint32_t)i;
    if (c.sizes[i] == -2) return make_lin(uid);
    if (c.sizes[i] == -3) return make_rp(uid);
    if (c.sizes[i] < 0) { CanMessage * m = new CanMessage; m->objectTimeStamp = uid; m->objectFlags = 1; m->channel = 1; m->dlc = 8; m->id = uid; uint64_t d = uid * 0x9E3779B97F4A7C15ULL; memcpy(m->data.data(), &d, 8); return m; }
    AppText * t = new AppText; t->objectTimeStamp = uid; t->objectFlags = 1; t->source = uid; t->text.resize((size_t)c.sizes[i]);
    for (size_t k = 0; k < t->text.size(); k++) t->text[k] = (char)('A' + (uid * 7 + k * 13) % 53);
    if (c.noisy) { uint64_t x = uid * 0x9E3779B97F4A7C15ULL + 1; for (size_t k = 0; k < t->text.size(); k++) { x ^= x << 13; x ^= x >> 7; x ^= x << 17; t->text[k] = (char)(x >> 32); } }
    return t;
}

// check a delivered object against what the file holds at position i; then scribble over it and delete it at once
static std::string check_and_consume(ObjectHeaderBase * o, const Cfg & c, size_t i) {
    std::string err;
    uint32_t uid = 1000 + (uint32_t)i;
    if (c.sizes[i] == -3) {
        RestorePointContainer * m = dynamic_cast<RestorePointContainer *>(o);
        if (!m) err = "wrong class (RestorePointContainer expected)"; else if (m->objectTimeStamp != uid || m->reservedRestorePointContainer[3] != (uint8_t)uid) err = "wrong object (RestorePointContainer " + std::to_string(m->objectTimeStamp) + " expected " + std::to_string(uid) + ")";
        else if (m->data.size() != uid % 7 || m->dataLength != uid % 7 || (m->data.size() && m->data[0] != (uint8_t)(uid * 5))) err = "modified RestorePointContainer";
        if (m) { m->objectSize = 0; m->objectType = ObjectType::UNKNOWN; m->objectTimeStamp = ~0ULL; std::fill(m->data.begin(), m->data.end(), 0xee); }
        delete o;
        return err;
    }
    if (c.sizes[i] == -2) {
        LinMessage2 * m = dynamic_cast<LinMessage2 *>(o);
        if (!m) err = "wrong class"; else if (m->objectTimeStamp != uid || m->id != (uint8_t)uid || m->crc != (uint16_t)(uid * 3)) err = "wrong object (LinMessage2 " + std::to_string(m->objectTimeStamp) + " expected " + std::to_string(uid) + ")";
        else if (m->apiMajor != 1 + uid % 2 || m->data[3] != (uint8_t)(uid + 3) || (m->apiMajor >= 2 && m->respBaudrate != uid)) err = "modified LinMessage2";
        if (m) { m->objectSize = 0; m->objectType = ObjectType::UNKNOWN; m->objectTimeStamp = ~0ULL; m->apiMajor = 9; m->data.fill(0xee); }
        delete o;
        return err;
    }
    if (c.sizes[i] < 0) {
        CanMessage * m = dynamic_cast<CanMessage *>(o);
        uint64_t d = uid * 0x9E3779B97F4A7C15ULL;
        if (!m) err = "wrong class"; else if (m->id != uid || m->objectTimeStamp != uid) err = "wrong object (id " + std::to_string(m->id) + " expected " + std::to_string(uid) + ")";
        else if (memcmp(m->data.data(), &d, 8) || m->dlc != 8 || m->channel != 1) err = "modified CanMessage";
        if (m) { m->id = 0xdeadbeef; m->objectTimeStamp = ~0ULL; m->objectType = ObjectType::UNKNOWN; m->objectSize = 0; m->data.fill(0xff); }
    } else {
        AppText * t = dynamic_cast<AppText *>(o);
        if (!t) err = "wrong class"; else if (t->source != uid || t->objectTimeStamp != uid) err = "wrong object (source " + std::to_string(t->source) + " expected " + std::to_string(uid) + ")";
        else if (t->text.size() != (size_t)c.sizes[i] || t->textLength != (uint32_t)c.sizes[i]) err = "text length " + std::to_string(t->text.size());
        else for (size_t k = 0; k < t->text.size(); k++) if (t->text[k] != (char)('A' + (uid * 7 + k * 13) % 53)) { err = "modified text at " + std::to_string(k); break; }
        if (t) { t->source = 0xdeadbeef; t->objectType = ObjectType::UNKNOWN; t->objectSize = 0; t->objectTimeStamp = ~0ULL; std::fill(t->text.begin(), t->text.end(), '#'); }
    }
    delete o;
    return err;
}

struct RunOut { std::string err; twin::Bytes file; int threads_left; uint64_t steps, sig; };

// one session; controlled = under the schedule controller
static RunOut session(const Cfg & c, const std::string & path, bool controlled, uint64_t sseed, int strategy, int sparam, int spurious) {
    RunOut out; out.threads_left = 0; out.steps = 0; out.sig = 0;
    if (controlled) { sched_set_budget(400000); sched_set_spurious(spurious); sched_set_timeouts(spurious ? 20 : 0); sched_begin(sseed, strategy, sparam); }
    {
        File * f = new File;
        if (!c.shipped) f->verifSetLimits(c.Q, c.B);
        bool reading = c.kind == 0 || c.kind == 1 || c.kind == 2 || c.kind == 5;
        if (reading) {
            f->open(path.c_str(), std::ios_base::in);
            if (!f->is_open()) out.err = "open(in) failed";
            else {
                std::vector<size_t> known; for (size_t q = 0; q < c.sizes.size(); q++) if (c.sizes[q] > -1000) known.push_back(q);
                size_t n = (c.kind == 5) ? 0 : (size_t)c.k;
                size_t i = 0;
                for (; i < n && out.err.empty(); i++) {
                    ObjectHeaderBase * o = f->read();
                    if (!o) { out.err = "null after " + std::to_string(i) + " of " + std::to_string(known.size()) + " objects"; break; }
                    if (!f->good() || f->eof()) out.err = "flags after object " + std::to_string(i);
                    std::string e = check_and_consume(o, c, known[i]);
                    if (!e.empty() && out.err.empty()) out.err = "object " + std::to_string(i) + ": " + e;
                }
                if (c.kind == 0 && out.err.empty()) {
                    ObjectHeaderBase * o = f->read();
                    if (o) { out.err = "extra object after the last one"; delete o; }
                    else if (f->good() || !f->eof()) out.err = "flags after final null: good=" + std::to_string(f->good()) + " eof=" + std::to_string(f->eof());
                    else { o = f->read(); if (o) { out.err = "object after end-of-file"; delete o; } }
                }
            }
            if (c.kind != 2) { f->close(); if (f->is_open() && out.err.empty()) out.err = "is_open after close"; }
        } else {
            f->compressionLevel = c.level; f->writeRestorePoints = c.trailer; f->setDefaultLogContainerSize(c.C);
            f->open(c.devfull ? "/dev/full" : path.c_str(), std::ios_base::out);
            if (!f->is_open()) out.err = "open(out) failed";
            else {
                for (size_t i = 0; i < c.sizes.size(); i++) f->write(make_object(c, i));
            }
            if (c.kind != 4) f->close();
        }
        delete f;
    }
    if (controlled) { out.steps = sched_steps(); out.sig = sched_signature(); out.threads_left = sched_end(); }
    return out;
}


static long g_devfull = 0; static long g_sessions = 0, g_read = 0, g_write = 0, g_early = 0, g_maxsteps = 0; static uint64_t g_steps = 0; static std::set<uint64_t> * g_sigs = nullptr; static std::map<int, long> * g_kinds = nullptr; static std::string g_sample;
static void emit_stats() {
    char sites[4096]; sched_site_counts(sites, sizeof sites);
    std::ostringstream s;
    s << "{\"sessions\":" << g_sessions << ",\"read_sessions\":" << g_read << ",\"write_sessions\":" << g_write << ",\"early_close_sessions\":" << g_early << ",\"write_sessions_to_full_device\":" << g_devfull
      << ",\"steps\":" << g_steps << ",\"max_steps\":" << g_maxsteps << ",\"distinct_signatures\":" << (g_sigs ? g_sigs->size() : 0) << ",\"blocked_at\":{" << sites << "},\"kinds\":{";
    bool first = true; if (g_kinds) for (auto & kv : *g_kinds) { s << (first ? "" : ",") << "\"" << kv.first << "\":" << kv.second; first = false; }
    s << "},\"samples\":[" << hc::jstr(g_sample) << "]}";
    hc::stat(s.str());
}

int main(int argc, char ** argv) {
    hc::out_init();
    if (argc < 6) { fprintf(stderr, "usage: h_pipe pipe seed from to schedules_per_config\n"); return 2; }
    uint64_t seed = strtoull(argv[2], nullptr, 0); long from = atol(argv[3]), to = atol(argv[4]); long S = atol(argv[5]);
    bool dfsmode = std::string(argv[1]) == "pipedfs";      // argv[5] = preemption bound, argv[6] = execution budget per configuration
    int dfs_bound = dfsmode ? (int)S : 0; uint64_t dfs_max = (dfsmode && argc > 6) ? strtoull(argv[6], nullptr, 0) : 200000; if (dfsmode) S = 1;
    uint64_t dfs_exec = 0, dfs_trunc = 0, dfs_cfgs = 0, dfs_maxdepth = 0;
    const char * tmp = getenv("VERIF_TMP"); std::string dir = tmp ? tmp : "/dev/shm";
    std::string path = dir + "/pipe." + std::to_string(getpid()) + ".blf";
    wd::start();
    long & sessions = g_sessions; long & maxsteps = g_maxsteps; long & read_sessions = g_read; long & write_sessions = g_write; long & early = g_early; uint64_t & totsteps = g_steps;
    std::set<uint64_t> sigs; std::map<int, long> kinds; std::string & sample = g_sample; g_sigs = &sigs; g_kinds = &kinds;
    long cur_cfg = -1; Cfg c; twin::Bytes ref; bool ref_ok = false;
    int base_threads = hc::native_threads();
    for (long idx = from; idx < to; idx++) {
        hc::begin_case(std::to_string(idx));
        long ci = idx / S, si = idx % S;
        wd::arm(dfsmode ? 1400 : 120, "pipe");
        if (ci != cur_cfg) {
            cur_cfg = ci; c = dfsmode ? make_dfs_cfg(ci) : make_cfg(seed, ci); ref_ok = false;
            bool reading = c.kind == 0 || c.kind == 1 || c.kind == 2 || c.kind == 5;
            if (reading) {
                twin::Bytes st = make_stream(c), f = twin::wrap(st, c.C, std::min(c.level, 9));     // the independent encoder speaks zlib levels
                Rng hr(Rng::mix(seed ^ 0x4EAD, (uint64_t)ci));
                if (hr.chance(1, 2)) {
                    // every other input carries the header a finished Vector log carries (sizes, object count without restore points, API number,
                    // time stamps) instead of the all-zero statistics of an unfinished one: a reader may not be led astray by either
                    static const uint32_t apis[] = {4070100, 4080200, 4110100};
                    uint32_t count = 0; for (long x : c.sizes) if (x != -3) count++;
                    size_t cs = c.C ? c.C : 1, ncont = (st.size() + cs - 1) / cs;
                    uint64_t usize = 144 + (uint64_t)st.size() + 32 * (uint64_t)ncont, fsz = f.size();
                    uint32_t api = apis[hr.below(3)];
                    memcpy(&f[8], &api, 4); f[12] = 2; f[13] = (uint8_t)std::min(c.level, 9); f[14] = 11; f[15] = 0;
                    memcpy(&f[16], &fsz, 8); memcpy(&f[24], &usize, 8); memcpy(&f[32], &count, 4);
                    uint16_t t0[8] = {2024, 5, 2, 14, 10, 30, 0, 0}, t1[8] = {2024, 5, 2, 14, 10, 31, 7, 250};
                    memcpy(&f[40], t0, 16); memcpy(&f[56], t1, 16);
                }
                twin::save(path, f);
            }
            else {
                // uncontrolled reference run: the file every schedule must reproduce byte for byte
                wd::note(("native reference " + c.str()).c_str());
                RunOut r0 = session(c, path, false, 0, 0, 0, 0);
                if (c.devfull) { if (!r0.err.empty()) hc::viol("C07:native-write-session:" + r0.err, c.str()); if (!hc::threads_back_to(base_threads)) hc::viol("C06:thread-left-behind:native:kind" + std::to_string(c.kind), c.str()); goto cfg_done; }
                ref = twin::load(path);
                twin::Bytes stream; std::string pe = twin::parse(ref, stream);
                if (!r0.err.empty()) hc::viol("C07:native-write-session:" + r0.err, c.str());
                else if (!pe.empty()) hc::viol("C07:written-file-malformed:" + pe.substr(0, pe.find(" at")), pe + " " + c.str());
                else {
                    // inflated payload == concatenation of the objects' encodings
                    twin::Bytes E; for (size_t i = 0; i < c.sizes.size(); i++) { ObjectHeaderBase * o = make_object(c, i); MemFile mf; o->write(mf); E.insert(E.end(), mf.buf.begin(), mf.buf.end()); delete o; }
                    if (E != stream) hc::viol("C07:payload!=concatenated-encodings", c.str()); else ref_ok = true;
                }
                if (!hc::threads_back_to(base_threads)) hc::viol("C06:thread-left-behind:native:kind" + std::to_string(c.kind), c.str());
            }
        }
        cfg_done: ;
        int strategy, sparam = 0, spurious = 0;
        switch (si % 8) { case 0: case 1: case 2: strategy = SCHED_RANDOM; break; case 3: strategy = SCHED_PCT; sparam = 1; break; case 4: strategy = SCHED_PCT; sparam = 2; break;
            case 5: strategy = SCHED_PCT; sparam = 3; break; case 6: strategy = SCHED_STARVE; sparam = (int)((si / 8) % 3); break; default: strategy = SCHED_FAVOUR; sparam = (int)((si / 8) % 3); }
        if (si % 5 == 4) spurious = 30;
        uint64_t sseed = Rng::mix(seed, (uint64_t)idx);
        wd::note((c.str() + " strategy=" + std::to_string(strategy) + "/" + std::to_string(sparam)).c_str());
        // the controller's violation handler needs the configuration for the report: stash it in the environment of the handler
        static std::string ctx; ctx = c.sizeclass() + " " + c.str() + " case=" + std::to_string(idx);
        sched_on_violation = [](const char * kind, const char * key, const char * report) {
            std::string r = report; for (auto & ch : r) if (ch == '\n') ch = '|';
            printf("@viol C06:%s:%s :: %s || %s\n", kind, key, ctx.c_str(), r.c_str()); fflush(stdout); emit_stats(); _exit(42);
        };
        if (dfsmode) { dfs::begin(dfs_bound); spurious = 0; strategy = SCHED_RANDOM; }
        RunOut r;
        do {
        if (dfsmode) dfs::start_execution();
        r = session(c, path, true, sseed, strategy, sparam, spurious);
        sessions++; totsteps += r.steps; if ((long)r.steps > maxsteps) maxsteps = (long)r.steps; sigs.insert(r.sig); kinds[c.kind]++;
        bool reading = c.kind == 0 || c.kind == 1 || c.kind == 2 || c.kind == 5;
        if (reading) read_sessions++; else write_sessions++;
        if (c.kind == 1 || c.kind == 2) early++;
        if (c.devfull) g_devfull++;
        if (r.threads_left) hc::viol("C06:thread-left-behind:kind" + std::to_string(c.kind), c.str() + " threads=" + std::to_string(r.threads_left));
        if (!r.err.empty()) {
            std::string e = r.err; for (auto & ch : e) if (ch >= '0' && ch <= '9') ch = 'N';
            hc::viol(std::string("C07:") + (reading ? "read" : "write") + "-session:" + e, r.err + " " + c.str() + " case=" + std::to_string(idx));
        }
        if (!reading && ref_ok) {
            twin::Bytes got = twin::load(path);
            if (got != ref) {
                size_t off = 0; while (off < got.size() && off < ref.size() && got[off] == ref[off]) off++;
                hc::viol("C07:file-differs-between-schedules", "first difference at " + std::to_string(off) + " sizes " + std::to_string(got.size()) + "/" + std::to_string(ref.size()) + " " + c.str() + " case=" + std::to_string(idx));
            }
        }
        if (sample.empty() || (sessions % 997) == 0) sample = c.str() + " strategy=" + std::to_string(strategy) + "/" + std::to_string(sparam) + " steps=" + std::to_string(r.steps);
        } while (dfsmode && dfs::next_execution(dfs_max));
        if (dfsmode) { dfs_exec += dfs::executions; dfs_cfgs++; if (dfs::truncated) dfs_trunc++; if (dfs::max_depth > dfs_maxdepth) dfs_maxdepth = dfs::max_depth; dfs::end();
            printf("@dfs %ld %llu %d %llu %s\n", ci, (unsigned long long)dfs::executions, dfs::truncated ? 1 : 0, (unsigned long long)dfs::max_depth, c.str().c_str()); }
        wd::disarm();
    }
    unlink(path.c_str());
    emit_stats();
    return 0;
}
