// Per-case wall-clock watchdog (generous; its firing is "inconclusive until reproduced", never a verdict by itself).
// The thread is created with the real pthread_create before any controlled session starts.
#pragma once
#include <pthread.h>
#include <time.h>
#include <unistd.h>
#include <atomic>
#include <cstdio>
#include <cstring>
namespace wd {
static std::atomic<long> deadline{0};
static char what[64];
static char notebuf[1024];
static inline long now() { struct timespec ts; clock_gettime(CLOCK_MONOTONIC, &ts); return ts.tv_sec; }
static void * loop(void *) {
    for (;;) {
        struct timespec ts = {0, 200000000}; clock_nanosleep(CLOCK_MONOTONIC, 0, &ts, nullptr);
        long d = deadline.load();
        if (d && now() > d) {
            fprintf(stderr, "@hangsite %s\nwatchdog: case exceeded its time limit: %s\n", what, notebuf); fflush(stderr);
            _exit(77);
        }
    }
    return nullptr;
}
static inline void start() { static bool started = false; if (started) return; started = true; pthread_t t; pthread_create(&t, nullptr, loop, nullptr); pthread_detach(t); }
static inline void arm(int seconds, const char * w) { snprintf(what, sizeof what, "%s", w); deadline.store(now() + seconds); }
static inline void note(const char * n) { snprintf(notebuf, sizeof notebuf, "%s", n); }
static inline void disarm() { deadline.store(0); }
}
