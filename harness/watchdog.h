// Per-case wall-clock watchdog (generous; its firing is "inconclusive until reproduced", never a verdict by itself).
// The thread is created with the real pthread_create before any controlled session starts.
#pragma once
#include <pthread.h>
#include <time.h>
#include <unistd.h>
#include <atomic>
#include <cstdio>
#include <cstdlib>
#include <cstring>
namespace wd {
static std::atomic<long> deadline{0};
static char what[64];
static char notebuf[1024];
static inline long now() { struct timespec ts; clock_gettime(CLOCK_MONOTONIC, &ts); return ts.tv_sec; }
static void * loop(void *) {
    for (;;) {
        struct timespec ts = {0, 200000000}; clock_nanosleep(CLOCK_MONOTONIC, 0, &ts, nullptr);
        long d = deadline.load();
        if (d && now() > d) {
            fprintf(stderr, "@hangsite %s\nwatchdog: case exceeded its time limit: %s\n", what, notebuf); fflush(stderr);
            _exit(77);
        }
    }
    return nullptr;
}
static inline void start() { static bool started = false; if (started) return; started = true; pthread_t t; pthread_create(&t, nullptr, loop, nullptr); pthread_detach(t); }
// VERIF_WD_SCALE stretches every limit (set by bin/reach only: the gcov-instrumented build is 10-30x slower)
static inline void arm(int seconds, const char * w) { static const int scale = getenv("VERIF_WD_SCALE") ? atoi(getenv("VERIF_WD_SCALE")) : 1; snprintf(what, sizeof what, "%s", w); deadline.store(now() + (long)seconds * (scale > 0 ? scale : 1)); }
static inline void note(const char * n) { snprintf(notebuf, sizeof notebuf, "%s", n); }
static inline void disarm() { deadline.store(0); }
}
