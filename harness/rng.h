// splitmix64 / xorshift PRNG; every random choice in the harnesses derives from VERIF_SEED through this.
#pragma once
#include <cstdint>
struct Rng {
    uint64_t s;
    explicit Rng(uint64_t seed = 1) : s(seed) { next(); next(); }
    uint64_t next() { uint64_t z = (s += 0x9E3779B97F4A7C15ULL); z = (z ^ (z >> 30)) * 0xBF58476D1CE4E5B9ULL;
        z = (z ^ (z >> 27)) * 0x94D049BB133111EBULL; return z ^ (z >> 31); }
    uint32_t below(uint32_t n) { return n ? (uint32_t)(next() % n) : 0; }
    bool chance(unsigned num, unsigned den) { return below(den) < num; }
    static uint64_t mix(uint64_t a, uint64_t b) { Rng r(a * 0x9E3779B97F4A7C15ULL + b); return r.next(); }
};
