// libFuzzer target (C10 thorough): feeds mutated object images straight into each class's read() on a MemFile, then re-encodes.
// input: byte 0 = object type code, rest = image. No threads.
#include <Vector/BLF.h>
#include "memfile.h"
#define NEWCAP_IMPL
#include "newcap.h"
using namespace Vector::BLF;
// the allocation cap applies only while the library runs (libFuzzer allocates large tables of its own); codec level: a small cap keeps absurd resize() calls cheap
struct CapScope { CapScope() { g_new_cap = 8u << 20; } ~CapScope() { g_new_cap = 0; } };
extern "C" int LLVMFuzzerTestOneInput(const uint8_t * data, size_t size) {
    if (size < 1) return 0;
    CapScope cap;
    ObjectHeaderBase * o = File::createObject((ObjectType)data[0]);
    if (!o) return 0;
    MemFile in; in.buf.assign(data + 1, data + size);
    bool ok = false;
    try { o->read(in); ok = !in.failb && in.min_g >= 0; } catch (std::exception &) {}     // a worker thread would catch these and end the stream
    if (ok) { try { MemFile out; o->write(out); } catch (std::exception &) {} }
    delete o;
    return 0;
}
